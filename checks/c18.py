"""C18 -- regex length and suffix analysis is exact and safe.

Coq: theories/RegexProg.v (model), RegexProgProofs.v, props/C18.v.
Tie: generated regular expressions -> the Go harness (harness/c18, overlay in package regexanalysis)
dumps the compiled program and the results of AcceptedLength / ConstantSuffix and enumerates all strings
over a small alphabet through the real binaryregexp matcher (whole-string membership and every match the
search finds); the extracted model analyses the dumped program (cached walk = the code, cache-free walk =
what the theorems speak about, suffix walk, path-semantics acceptor). Compared:
  impl len      == model cached walk == model cache-free walk (proved exact)
  impl suffix   == model suffix walk
  matcher membership == path semantics (assertion-free programs; subset otherwise)
  every match found by the real matcher has a length in [min,max] and ends with the suffix  (oracle on the code)
  min / max attained within the enumeration when the alphabet covers the expression          (oracle on the code)
"""
import os
import shutil
import random
import time

from vplib import *

PROP = "C18"
MAXU = 18446744073709551615

FIXED = [
    "", "a", "a*", "a{2,3}", "foo.*bar", "foo.*bar.*baz", "RABA_([A-Za-z0-9+/]|%[0-9a-fA-F]{2}){32}",
    "(?:a|bb){64}", "(?:a|bb){8}", "(?:a|bb){16}c", "x(?:ab|b){18}", "(a*)*", "(a*)+", "()*", "(|a)*", "(a|)+", "(?:a?){3}", "(?:a*)?", "(?:(?:a|b)+c)*",
    "(?:x(?:a|b))+", "(?:a|b+)*", "(?i)abc", "^foo$", "\\bfoo\\b", "(?:)", "a|", "|a", "(?:a|b)(?:a|b)c", "abc|bc|c",
    "(?:ab|b)c", "a+b", "x+abc", "(?:a|b)+", "(?:(?:a|b)z)*", "(?:a|ab)(?:c|bcd)", "(?i:k)", "(?i:s)b", "[^\\x00-\\x{10FFFF}]",
    "a[^\\x00-\\x{10FFFF}]|b", "\\x{100}", "\\x{100}|ab", "a\\bb", "(?:a{2}){2,3}", "(?:a{0,2}){2}", "(?:a|b){2,}c",
    "(?s:.)a", ".a", "\\Aa\\z", "(?m:^a$)", "a$|b", "(?:^|a)b", "a(?:$|b)", "(a)(b)?", "(?P<n>a+)b", "[ab][bc]c",
    "a*?b", "a+?", "a??b", "(?:a*b)*c", "((a)|b)*", "(?:a|b|c)(?:a|b|c)(?:a|b|c)", "\\xffa", "a\\n", "[a-c]{1,3}b",
    "(?:a|(?:b|(?:c|ab)))c", "b(?:ab|b)", "a(?:b|a$)", "bb(?:ab|b)", "b(?:ab|ca)", "ab(?:c|bc)a", "(?:a+)+b", "(?:a*)*b", "(?:(?:a|b)*c|a)b", "(?:a|ab|abc)+", "(?:b|a(?:b|c)*)d",
]


class Gen:
    """random expressions over the letters a b c with classes, folding, repetition, groups, assertions"""

    def __init__(self, rng):
        self.rng = rng
        self.wit = set()
        self.ncap = 0

    def atom(self):
        r = self.rng
        x = r.random()
        if x < 0.42:
            c = r.choice("abc")
            self.wit.add(c)
            return c
        if x < 0.50:
            s = "".join(r.choice("abc") for _ in range(r.randrange(2, 4)))
            self.wit.update(s)
            return s
        table = [(".", "a"), ("[ab]", "a"), ("[^a]", "b"), ("[a-c]", "c"), ("\\w", "a"), ("\\d", "0"), ("\\s", " "),
                 ("(?i:a)", "A"), ("(?i:k)", "k"), ("(?i:bc)", "Bc"), ("\\n", "\n"), ("(?s:.)", "\n"), ("\\xff", "\xff"),
                 ("[^b]", "a"), ("[bc]", "c"), ("[^\\x00-\\x{10FFFF}]", ""), ("\\x{100}", ""), ("[a\\x{100}]", "a"),
                 ("\\W", " "), ("[[:alpha:]]", "a")]
        if x < 0.80:
            t, w = r.choice(table)
            if w:
                self.wit.update(w)
            else:
                self.wit.add("!")  # not satisfiable by any byte
            return t
        if x < 0.93:
            self.asserts = True
            return r.choice(["^", "$", "\\A", "\\z", "\\b", "\\B", "(?m:^)", "(?m:$)"])
        return ""

    asserts = False

    def expr(self, d):
        r = self.rng
        if d <= 0:
            return self.atom()
        x = r.random()
        if x < 0.25:
            return self.atom()
        if x < 0.50:
            return "".join(self.group(self.expr(d - 1), False) for _ in range(r.randrange(2, 4)))
        if x < 0.68:
            alts = [self.expr(d - 1) for _ in range(r.randrange(2, 4))]
            if r.random() < 0.15:
                alts[r.randrange(len(alts))] = ""
            return self.group("|".join(alts), True)
        if x < 0.92:
            e = self.group(self.expr(d - 1), True, for_rep=True)
            y = r.random()
            if y < 0.2:
                q = "*"
            elif y < 0.4:
                q = "+"
            elif y < 0.55:
                q = "?"
            elif y < 0.7:
                q = "{%d}" % r.randrange(0, 4)
            elif y < 0.8:
                q = "{%d,}" % r.randrange(0, 3)
            else:
                a = r.randrange(0, 3)
                q = "{%d,%d}" % (a, a + r.randrange(0, 3))
            if r.random() < 0.2:
                q += "?"
            return e + q
        return self.group(self.expr(d - 1), True)

    def group(self, e, force, for_rep=False):
        r = self.rng
        simple = len(e) == 1 or (len(e) == 2 and e[0] == "\\") or (e.startswith("[") and e.endswith("]") and e.count("[") == 1)
        if not force and ("|" not in e):
            return e
        if for_rep and simple and r.random() < 0.7:
            return e
        x = r.random()
        if x < 0.55:
            return "(?:" + e + ")"
        if x < 0.85:
            return "(" + e + ")"
        if x < 0.93:
            self.ncap += 1
            return "(?P<n%d>%s)" % (self.ncap, e)
        return "(?i:" + e + ")" if r.random() < 0.5 else "(?U:" + e + ")"


def word(rng, lo, hi):
    return "".join(rng.choice("abc") for _ in range(rng.randrange(lo, hi + 1)))


def gen_case(rng, idx):
    g = Gen(rng)
    if rng.random() < 0.15:
        # constant text around an alternation of words (the shape the suffix and length walks are made for)
        ws = list(dict.fromkeys(word(rng, 1, 3) for _ in range(rng.choice([2, 2, 3]))))
        alt = "|".join(ws + ([""] if rng.random() < 0.1 else []))
        grp = rng.choice(["(?:%s)", "(%s)", "(?:%s)", "(?:%s)?", "(?:%s){2}", "(?:%s)+"]) % alt
        e = word(rng, 0, 2) + grp + word(rng, 0, 2) + rng.choice(["", "", "", "$", "\\b"])
        if rng.random() < 0.3:
            e += rng.choice(["(?:%s)" % "|".join(word(rng, 1, 2) for _ in range(2)), "[ab]", "."])
        g.wit.update("abc")
    else:
        e = g.expr(rng.choice([1, 2, 2, 3, 3, 3, 4, 4]))
    if rng.random() < 0.05:
        e = "(?i)" + e
        g.wit.add("A")
    wit = sorted(g.wit - {"!"})
    alpha = list(dict.fromkeys(["a", "b"] + wit))
    covered = len(alpha) <= 4 and "!" not in g.wit
    alpha = alpha[:4]
    if len(alpha) < 3:
        alpha.append("c")
    return {"re": e, "alpha": "".join(alpha), "covered": covered}


def enc(s):
    return s.encode("latin-1").hex() if s else "-"


def parse_go(path):
    res = {}
    if not os.path.exists(path):
        return res
    for line in open(path, errors="replace"):
        line = line.rstrip("\n")
        sp = line.split(" ", 2)
        if len(sp) < 2:
            continue
        cid, kind = sp[0], sp[1]
        rest = sp[2] if len(sp) > 2 else ""
        if kind == "BEGIN":
            res[cid] = {"kind": "HANG"}
        elif kind in ("ERR", "PANIC"):
            res[cid] = {"kind": kind, "text": rest}
        elif kind == "P":
            parts = rest.split(" | ")
            st, n, insts = parts[0].split(" ", 2)
            d = {"kind": "P", "start": st, "n": n, "insts": insts}
            for kv in " ".join(parts[1:]).split():
                k, v = kv.split("=", 1)
                d[k] = v
            res[cid] = d
    return res


def parse_model(path):
    res = {}
    if not os.path.exists(path):
        return res
    for line in open(path):
        tok = line.split()
        if not tok:
            continue
        res[tok[0]] = dict(kv.split("=", 1) for kv in tok[1:])
    return res


def execute(cases, exe, tag, la, lf, costlimit=300000, go_suffix_limit=3000000):
    d = os.path.join(BUILD, "run", "c18", str(os.getpid()))
    os.makedirs(d, exist_ok=True)
    cf = os.path.join(d, "cases_%s.txt" % tag)
    with open(cf, "w") as f:
        for i, c in enumerate(cases):
            probes = ",".join(x.encode("latin-1").hex() for x in c.get("probes", []))
            f.write("%d %s %s %d %d%s\n" % (i, c["re"].encode("latin-1").hex() or "-", c["alpha"].encode("latin-1").hex(), c.get("la", la), c.get("lf", lf),
                                            (" " + probes) if probes else ""))
    iout, mcf, mout = os.path.join(d, "impl_%s.out" % tag), os.path.join(d, "mcases_%s.txt" % tag), os.path.join(d, "model_%s.out" % tag)
    for p in (iout, mout):
        if os.path.exists(p):
            os.remove(p)
    ov = go_overlay({"internal/tools/regexAnalysis/zz_verif_c18_test.go": os.path.join(ROOT, "harness/c18/zz_verif_c18_test.go")}, "c18_%d" % os.getpid())
    rc, out, gosec = go_test("./internal/tools/regexAnalysis/", ov, "^TestVerifC18$",
                             {"VERIF_CASES": cf, "VERIF_OUT": iout, "VERIF_COSTLIMIT": str(go_suffix_limit)}, timeout=900)
    note = "" if rc == 0 else "go harness rc=%d: %s" % (rc, out[-1500:])
    impl = parse_go(iout)
    with open(mcf, "w") as f:
        for i, c in enumerate(cases):
            g = impl.get(str(i))
            if g and g["kind"] == "P":
                f.write("%d %s %s %s %s %s %d\n" % (i, g["start"], g["n"], g["insts"], g["cost"],
                                                    ".".join(str(ord(ch)) for ch in c["alpha"]), c.get("la", la)))
    rc2, out2, msec = run([exe, mcf, mout, str(costlimit)], timeout=900)
    if rc2 != 0:
        note += " model driver rc=%d: %s" % (rc2, out2[-500:])
    return impl, parse_model(mout), note, gosec, msec


def judge(c, g, m):
    """-> (kind, text) or None.  kind: 'impl' = the code contradicts the property (oracle or proved model),
    'corr' = model and code disagree without a property failure, 'ok-skip' = nothing to compare."""
    if g is None:
        return ("corr", "no harness output")
    if g["kind"] == "HANG":
        return ("impl", "analysis did not return")
    if g["kind"] == "PANIC":
        return ("impl", "panic: " + g["text"])
    if g["kind"] == "ERR":
        if g["text"] in ("parse", "big"):
            return None
        return ("impl", "error: " + g["text"])
    if m is None:
        return ("corr", "no model output")
    if g["bad"] != "-":
        return ("impl", "real matcher contradicts the analysis: " + g["bad"])
    if m["wf"] != "1":
        return ("corr", "compiled program is not well-formed in the model's sense")
    if m["lenu"] not in ("skip", g["len"]):
        return ("impl", "AcceptedLength %s differs from the exact analysis %s (cache-free walk, proved exact)" % (g["len"], m["lenu"]))
    if m["lenc"] != g["len"]:
        return ("corr", "AcceptedLength %s, model of the cached walk %s" % (g["len"], m["lenc"]))
    if g["suf"] != "skip" and g["suf"] != m["suf"] and g["suf"] != m.get("sufu"):
        return ("corr", "ConstantSuffix %s, model %s" % (g["suf"], m["suf"]))
    if m["af"] == "1":
        if g["acc"][:len(m["acc"])] != m["acc"]:
            return ("corr", "path semantics differs from the real matcher on an assertion-free program")
    else:
        if any(a == "1" and b == "0" for a, b in zip(g["acc"], m["acc"])):
            return ("corr", "real matcher accepts a string that the path semantics rejects")
    mn, mx = (int(x) for x in g["len"].split(","))
    la = c["la"]
    omin, omax = int(g["omin"]), int(g["omax"])
    if m["af"] == "1" and m["sat"] == "1" and c.get("covered"):
        if mn <= la and omin != mn:
            return ("impl", "minimum %d is not attained (shortest matching string over the alphabet: %d)" % (mn, omin))
        if mn > la and omin != -1:
            return ("impl", "a string shorter than the minimum matches")
        if mx <= la and omax != mx and omin != -1:
            return ("impl", "maximum %d is not attained (longest matching string up to %d: %d)" % (mx, la, omax))
    if omin != -1 and (omin < mn or omax > mx):
        return ("impl", "a matching string lies outside [min,max]")
    return None


def setup():
    """model extraction and driver build (bin/check --setup calls this; main builds lazily through it)"""
    return build_model(PROP, "ExtractC18.v", os.path.join(ROOT, "ocaml/c18"), ["theories/RegexProg.v"])[0]


def main(tier, seed, replay=None):
    t0 = time.time()
    proof = Proof(PROP, tier=tier)
    exe = setup()
    rng = random.Random(seed)
    ncase = 5000 if tier == "quick" else 40000
    la, lf = (5, 6) if tier == "quick" else (6, 7)
    cases = []
    cdir = os.path.join(ROOT, "corpus", PROP)
    if replay:
        r = json.load(open(replay))
        cases = [{"re": r["re"], "alpha": r.get("alpha", "abc"), "covered": r.get("covered", False), "probes": r.get("probes", [])}]
    else:
        if os.path.isdir(cdir):
            for fn in sorted(os.listdir(cdir)):
                r = json.load(open(os.path.join(cdir, fn)))
                cases.append({"re": r["re"], "alpha": r.get("alpha", "abc"), "covered": r.get("covered", False)})
        for e in FIXED:
            cases.append({"re": e, "alpha": "abc", "covered": False})
        # expressions whose suffix walk exceeds the call budget, with literal text around the alternations and a constructed match
        cases.append({"re": "FLAG_(?:[a-z]|%[0-9]{2}){18}", "alpha": "a%1", "covered": False,
                      "probes": ["FLAG_" + "x" * 18, "FLAG_" + "%12" * 18, "zFLAG_" + "a%07" * 9 + "zz"]})
        for _ in range(3):
            head, tail = rng.choice(["id=", "ab", "x"]), rng.choice([";", "b", "ca"])
            w1, w2 = rng.choice([("ab", "c"), ("ba", "c"), ("aa", "b")])
            n = 18
            cases.append({"re": "%s(?:%s|%s){%d}%s" % (head, w1, w2, n, tail), "alpha": "abc", "covered": False,
                          "probes": [head + w2 * n + tail, head + w1 * n + tail, "c" + head + (w1 + w2) * (n // 2) + tail + "c"]})
        for i in range(ncase):
            cases.append(gen_case(rng, i))
    for c in cases:
        c.setdefault("la", la)
        c.setdefault("lf", lf)
    impl, model, note, gosec, msec = execute(cases, exe, "main", la, lf)
    nviol, findings, stats = 0, [], {"compared": 0, "parse_error": 0, "assertion_free": 0, "with_assertions": 0, "unsat_rune": 0,
                                    "cachefree_compared": 0, "suffix_compared": 0, "nonempty_suffix": 0, "finite_max": 0,
                                    "loops": 0, "strings_through_matcher": 0, "matches_observed": 0, "deep_searches": 0}
    distinct = set()
    verdicts = []
    for i, c in enumerate(cases):
        g, m = impl.get(str(i)), model.get(str(i))
        v = judge(c, g, m)
        if g and g["kind"] == "ERR" and g["text"] in ("parse", "big"):
            stats["parse_error"] += 1
            continue
        if g and g["kind"] == "P" and m:
            stats["compared"] += 1
            distinct.add(g["insts"])
            stats["assertion_free" if m["af"] == "1" else "with_assertions"] += 1
            stats["unsat_rune"] += m["sat"] == "0"
            stats["cachefree_compared"] += m["lenu"] != "skip"
            stats["suffix_compared"] += m["suf"] != "skip"
            stats["nonempty_suffix"] += m["suf"] not in ("skip", "x")
            stats["suffix_budget_not_in_code"] = stats.get("suffix_budget_not_in_code", 0) + (g["suf"] != "skip" and g["suf"] != m["suf"] and g["suf"] == m.get("sufu"))
            stats["finite_max"] += not g["len"].endswith(str(MAXU))
            stats["loops"] += g["len"].endswith(str(MAXU))
            stats["strings_through_matcher"] += len(g["acc"])
            stats["matches_observed"] += int(g["find"].split(",")[0])
        if replay:
            print("case", c, "\nimpl ", {k: v for k, v in (g or {}).items() if k != "insts"}, "\nprogram", (g or {}).get("insts"), "\nmodel", m, "\nverdict", v)
        if v is not None:
            verdicts.append((i, c, g, m, v))
    # A disagreement between the code and the (proved sound) model that the first enumeration did not turn into a failing
    # input is searched again, on exactly these expressions, with longer strings and the alphabet of the expression itself.
    corr = [x for x in verdicts if x[4][0] == "corr"]
    if corr and not any(x[4][0] == "impl" for x in verdicts):
        deep = []
        for i, c, g, m, v in corr[:24]:
            lits = [ch for ch in dict.fromkeys(c["re"]) if ch.isalnum() or ch in " _-"]
            for alpha in (c["alpha"], "".join(lits[:4]), "".join(lits[:3]) + "\n"):
                if len(alpha) >= 2:
                    deep.append({"re": c["re"], "alpha": alpha, "covered": False, "la": 5, "lf": 8 if len(alpha) <= 3 else 7, "orig": i,
                                 "probes": c.get("probes", [])})
        stats["deep_searches"] = len(deep)
        dimpl, dmodel, _, _, _ = execute(deep, exe, "deep", 5, 8)
        for k, dc in enumerate(deep):
            dv = judge(dc, dimpl.get(str(k)), dmodel.get(str(k)))
            if dv is not None and dv[0] == "impl":
                verdicts.insert(0, (dc["orig"], dc, dimpl.get(str(k)), dmodel.get(str(k)), dv))
                break
    verdicts.sort(key=lambda x: 0 if x[4][0] == "impl" else 1)
    for i, c, g, m, v in verdicts[:5]:
        kind, text = v
        obj = {"property": PROP, "re": c["re"], "alpha": c["alpha"], "covered": c["covered"], "probes": c.get("probes", []), "what": text,
               "impl": {k: x for k, x in (g or {}).items() if k not in ("insts", "acc")},
               "model": {k: x for k, x in (m or {}).items() if k != "acc"}, "program": (g or {}).get("insts"),
               "seed": seed, "replay_cmd": "bin/check C18 --replay <this file>"}
        if kind == "impl":
            violation(PROP, obj)
        else:
            obj["broken"] = "correspondence between theories/RegexProg.v and regexAnalysis.go / binaryregexp: " + text
            violation(PROP, obj, no_input=True)
        nviol += 1
    if note and nviol == 0:
        violation(PROP, {"property": PROP, "broken": "correspondence harness could not run against this tree", "note": note}, no_input=True)
        nviol += 1
    if not proof.good() and nviol == 0:
        violation(PROP, {"property": PROP, "broken": proof.failure_text(), "searched_cases": len(cases)}, no_input=True)
        nviol += 1
    cov = proof.coverage()
    cov.update({
        "trusted_base": TRUSTED_COMMON + [
            "rsc.io/binaryregexp parser, Simplify and Compile are not modelled: the program they produce is dumped by the harness and is the model's input",
            "path semantics `accepts` (empty-width assertions pass) is tied to the real matcher by enumeration only (equal on assertion-free programs, superset otherwise)",
            "unicode.SimpleFold orbits are dumped by the harness, not modelled",
            "uint is 64 bit (MAXU = 2^64-1)"],
        "evaluations": stats["compared"],
        "distinct_nontrivial": len(distinct),
        "rule": "seeded random expressions over a b c (classes, folding, lazy/greedy * + ?, counted repetition, nested and empty loops, groups, assertions) "
                "+ %d fixed shapes; distinct = distinct compiled programs; compared: AcceptedLength = model cached walk = model cache-free walk (proved exact), "
                "ConstantSuffix = model, matcher membership of all strings <= %d over the alphabet = path semantics, every match found in all texts <= %d within [min,max] and ending with the suffix, min/max attained" % (len(FIXED), la, lf),
        "stats": stats,
        "go_seconds": round(gosec, 1), "model_seconds": round(msec, 1),
        "samples": [cases[-1]["re"], {k: x for k, x in (impl.get(str(len(cases) - 1)) or {}).items() if k not in ("insts", "acc")}],
        "disagreements": nviol,
    })
    known, fixed = known_findings(PROP)
    cov["fixed_findings"] = fixed
    write_evidence(PROP, tier, seed, cov,
                   ["uint is 64 bit", "programs come from syntax.Compile(Simplify(Parse(re, Perl))) as in regexAnalysis.go"],
                   time.time() - t0, nviol)
    shutil.rmtree(os.path.join(BUILD, "run", "c18", str(os.getpid())), ignore_errors=True)
    try:
        os.remove(os.path.join(BUILD, "overlay", "c18_%d.json" % os.getpid()))
    except OSError:
        pass
    return 1 if nviol else 0
