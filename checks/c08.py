"""C08 -- the import result does not depend on how and when captures arrive.

Coq: theories/Import.v, BuilderOrder.v, Udp.v, Tcp.v (+ *Proofs.v), props/C08.v.
Tie: the C05 generator (real pcap files through builder.FromPcap) plus import schedules: every
partition of <= 4 contiguous files into batches, arrival permutations of per-flow files, restart of
the Builder between imports, snapshots dropped / kept, snapshot points every few packets (overlay that
turns the literal 100_000 of builder.go into a variable; the thorough tier also uses the real interval
with capture sets above 100 000 packets), and -- kept apart -- out-of-chronological-order arrival.

Direct oracle: (a) canonicalised visible streams (no ids) equal those of the one-shot import,
(b) an id keeps its connection over the imports, (c) no packet belongs to two visible ids,
(d) the returned added/updated/reset sets and the id counter describe the change of the visible map.
Three ways: implementation vs this oracle, implementation vs extracted model (every step), model vs oracle.
"""
import itertools
import json
import os
import random
import time

from vplib import *
import c05
from c05 import (CaptureSet, canon_stream, canon_visible, cut_files, gen_set, partitions_in_order, render_case, run_impl,
                 run_model, set_from_json, set_to_json, show_stream, restrict, nonempty_runs, diff_model_impl, snaps_drift)

PROP = "C08"
KF_STALE = "stale-id-after-bridging-capture"
KF_SNAPREUSE = "snapshot-forgets-closed-tcp-4tuple"
KF_QUEUED = "queued-payload-flushed-but-not-written"
KF_DGAP = "snapshot-changes-flush-order-double-gap"
REGIMES = ["plain", "dup", "reorder", "udp-only", "udp-collide", "udp-reuse", "udp-reuse", "tcp-only", "tcp-reuse-late", "mixed", "tiecut", "udp-bucket", "udp-bucket", "unsorted", "unsorted"]


def all_partitions(nf):
    """every partition of 0..nf-1 (kept in order) into consecutive batches"""
    out = []
    for mask in range(1 << (nf - 1)):
        cur, parts = [0], []
        for i in range(1, nf):
            if mask >> (i - 1) & 1:
                parts.append(cur)
                cur = []
            cur.append(i)
        parts.append(cur)
        out.append(parts)
    return out


def schedules(rng, cs, mode, tier):
    nf = len(cs.files)
    runs = [("oneshot", 100000, [(0, rng.sample(range(nf), nf))])]
    if nf == 1:
        runs.append(("again", 100000, [(1, [0])]))
        return runs
    if mode == "contig":
        parts = all_partitions(nf)[1:]           # mask 0 = one batch = oneshot
        if len(parts) > 7 and tier == "quick":
            parts = rng.sample(parts, 4)
        for i, p in enumerate(parts):
            runs.append(("chrono%d" % i, 100000, [(rng.choice([0, 0, 1]), rng.sample(b, len(b))) for b in p]))
    else:
        perms = list(itertools.permutations(range(nf)))
        rng.shuffle(perms)
        for i, perm in enumerate(perms[:3 if tier == "quick" else 8]):
            p = partitions_in_order(rng, nf)
            runs.append(("arrive%d" % i, 100000, [(rng.choice([0, 0, 1]), [perm[j] for j in b]) for b in p]))
    return runs


def schedules_ooo(rng, cs, tier):
    """contiguous cuts arriving out of chronological order (the regime of the known finding)"""
    nf = len(cs.files)
    runs = [("oneshot", 100000, [(0, list(range(nf)))])]
    perms = [p for p in itertools.permutations(range(nf)) if list(p) != sorted(p)]
    rng.shuffle(perms)
    for i, perm in enumerate(perms[:3 if tier == "quick" else 10]):
        p = partitions_in_order(rng, nf)
        steps = [(rng.choice([0, 0, 1]), [perm[j] for j in b]) for b in p]
        if len(steps) == 1:
            steps = [(0, [perm[0]]), (0, list(perm[1:]))]
        runs.append(("ooo%d" % i, 100000, steps))
    return runs


def gen_lossy(rng, name):
    """capture loss: data segments of ONE direction of some TCP conversations are missing from the capture, so
    the reassembler queues what follows the gap and emits it only on an inactivity flush; a later flow
    (same port-hash bucket, > 5 minutes later) provides that flush in a later capture file."""
    cs = gen_set(rng, name, "tcp-only")
    lossy = []
    for c in cs.convs:
        if c.proto != "TCP":
            continue
        d = rng.choice("cs")
        cand = [p for p in c.pkts if p["dir"] == d and p["data"] and "S" not in p["flags"]]
        if len(cand) >= 2 and rng.random() < 0.8:
            drop = rng.choice(cand[:-1])
            # drop every copy of those bytes (retransmissions would fill the gap again)
            lo, hi = drop["seq"], drop["seq"] + len(drop["data"])
            gone = [p for p in cand if not (p["seq"] + len(p["data"]) <= lo or p["seq"] >= hi)]
            c.pkts = [p for p in c.pkts if not any(p is g for g in gone)]
            for i, p in enumerate(c.pkts):
                p["seqno"] = i
            lossy.append(c.cid)
    t_hi = max(p["ts"] for c in cs.convs for p in c.pkts)
    late = []
    for c in [c for c in cs.convs if c.cid in lossy][:3]:
        lc = c05.Conv(len(cs.convs) + len(late), "TCP", ("0a0009%02x" % (len(late) + 1), c.client[1]), ("0a000a01", c.server[1]), [("c", b"late")], close="fin")
        c05.render_tcp(rng, lc, t_hi + c05.TIMEOUT_US + rng.randrange(1, 100 * 1000000), 0, isn=(11, 22))
        late.append(lc)
    cs.convs += late
    allp = [p for c in cs.convs for p in c.pkts]
    allp.sort(key=lambda p: (p["ts"], p["cid"], p["seqno"]))
    cs.packets = allp
    cs.regime = "lossy"
    cs.lossy = lossy
    first_late = min(cs.packets.index(c.pkts[0]) for c in late) if late else None
    return cs, first_late


def gen_late_early(rng, name):
    """ONE import batch that is not chronological inside: [late.pcap, early.pcap] while snapshots exist.  early.pcap holds
    packets older than the newest snapshot that continue flows which were already over (> 5 min idle) at that snapshot
    point, so the snapshot chosen for the batch must not be younger than the OLDEST capture of the batch."""
    S = 1000000
    cs = CaptureSet(name)
    cs.regime = "late-early"
    convs = []

    def udp(client, server, times):
        c = c05.Conv(len(convs), "UDP", client, server, [])
        for k, ts in enumerate(times):
            d = "c" if k == 0 else rng.choice(["c", "s"])
            data = c05.rand_payload(rng, rng.choice([1, 2, 5, 30]))
            c.msgs.append((d, data))
            c05.pkt(c, d, ts, data=data)
        convs.append(c)
    nflow = rng.choice([1, 2, 3])
    for i in range(nflow):
        # flows that start in file 0, continue in file 1 (early) and are over long before file 2
        a, b = ("0a0001%02x" % (i + 1), 4000 + i), ("0a000201", 53)
        t1 = [rng.randrange(0, 40) * S for _ in range(rng.randrange(1, 4))]
        t2 = [rng.randrange(60, 280) * S for _ in range(rng.randrange(1, 3))]
        udp(a, b, sorted(t1) + sorted(t2))
    for i in range(rng.choice([2, 3, 5])):
        # traffic of file 2 and file 3 (snapshot points)
        a, b = ("0a0003%02x" % (i + 1), 5000 + i), ("0a000401", 53)
        udp(a, b, sorted(rng.randrange(1000, 1140) * S for _ in range(rng.randrange(2, 6))))
        udp(("0a0005%02x" % (i + 1), 6000 + i), ("0a000601", 53), sorted(rng.randrange(1200, 1300) * S for _ in range(rng.randrange(1, 4))))
    if rng.random() < 0.5:
        t = c05.Conv(len(convs), "TCP", ("0a000701", 40000), ("0a000801", 80), c05.gen_msgs(rng, "TCP"), close="fin")
        c05.render_tcp(rng, t, rng.randrange(60, 200) * S, 1)
        convs.append(t)
    cs.convs = convs
    allp = [p for c in convs for p in c.pkts]
    allp.sort(key=lambda p: (p["ts"], p["cid"], p["seqno"]))
    cs.packets = allp
    cs.files = ["c0.pcap", "c1.pcap", "c2.pcap", "c3.pcap"]
    cs.assign = [0 if p["ts"] < 50 * S else 1 if p["ts"] < 500 * S else 2 if p["ts"] < 1150 * S else 3 for p in allp]
    used = sorted(set(cs.assign))
    if used != [0, 1, 2, 3]:
        return None, None
    se = rng.choice([1, 2, 3])
    runs = [("oneshot", 100000, [(0, [0, 1, 2, 3])]),
            ("ooo0", se, [(0, [0]), (rng.choice([0, 1]), [2]), (rng.choice([0, 1]), [3, 1])]),
            ("ooo1", se, [(0, [0, 2]), (0, [3, 1])]),
            ("ooo2", se, [(0, [0]), (0, [2]), (0, [1, 3])])]
    runs += [(l + "-nosnap", 100000, st) for l, _, st in runs[1:]]
    return cs, runs


def schedules_ooo_snap(rng, cs, tier):
    """out-of-order arrival while snapshots exist (a younger snapshot must not be chosen)"""
    runs = schedules_ooo(rng, cs, tier)
    nf = len(cs.files)
    if nf >= 3:
        # always: a later capture first (records snapshots), then an OLDER one (those snapshots are stale now), then the rest
        runs.append(("ooo-later-first", 100000, [(0, [1]), (rng.choice([0, 1]), [0])] + [(rng.choice([0, 1]), [f]) for f in range(2, nf)]))
    out = [runs[0]]
    for l, _, st in runs[1:]:
        st2 = [(rng.choice([0, 1]) if fl == 0 else fl, fs) for fl, fs in st]
        out.append((l, rng.choice([1, 2, 3, 5, 8]), st2))
        out.append((l + "-nosnap", 100000, st2))          # the same arrival order without any snapshot
    return out


def schedules_snap(rng, cs, tier, every=None):
    nf = len(cs.files)
    runs = [("oneshot", 100000, [(0, list(range(nf)))])]
    for i in range(3 if tier == "quick" else 6):
        se = every or rng.choice([1, 2, 3, 5, 8, 13, 30])
        p = partitions_in_order(rng, nf) if nf > 1 else [[0]]
        runs.append(("snap%d" % i, se, [(rng.choice([0, 0, 1, 2, 3]), rng.sample(b, len(b))) for b in p]))
    return runs


# ---------------------------------------------------------------- oracle
def pkset(s):
    return {(a, b) for a, b, _ in s["pk"]}


def same_connection(s, t):
    return s["proto"] == t["proto"] and {s["client"], s["server"]} == {t["client"], t["server"]}


def superseded(vis):
    """ids of visible streams whose packets are a strict subset of another visible stream of the same
    4-tuple: the failure shape of finding stale-id-after-bridging-capture"""
    out = {}
    for i, s in vis.items():
        for j, v in vis.items():
            if i != j and same_connection(s, v) and pkset(s) < pkset(v):
                out[i] = j
    return out


def oracle_run(run_res, ref_canon, allow_leftover=False, ignore=None):
    """-> (errors, leftovers).  run_res: parsed run; ref_canon: canonical visible set of the one-shot import.
    ignore: predicate on streams; matching streams are left out of every comparison (and the id-counter checks
    are skipped) -- used only to confine a known finding to the connection it concerns."""
    errs, left = [], {}
    prev = {}
    if ignore:
        ref_canon = [x for x in ref_canon if not ignore({"proto": x[0], "client": x[1], "server": x[2]})]
    for st in run_res["steps"]:
        vis = st["streams"]
        if ignore:
            vis = {i: s for i, s in vis.items() if not ignore(s)}
        k = st["k"]
        if st["err"] != "-":
            errs.append("step %d: FromPcap error %s" % (k, st["err"]))
        sup = superseded(vis) if allow_leftover else {}
        # (c) no packet in two visible streams
        owner = {}
        for i, s in sorted(vis.items()):
            if i in sup:
                continue
            for p in pkset(s):
                if p in owner:
                    errs.append("step %d: packet %s belongs to visible ids %d and %d" % (k, p, owner[p], i))
                    break
                owner[p] = i
        # (b) an id keeps its connection
        for i, s in prev.items():
            t = vis.get(i)
            if t is None:
                errs.append("step %d: id %d disappeared" % (k, i))
            elif not same_connection(s, t) or not (pkset(s) <= pkset(t)):
                errs.append("step %d: id %d moved from %s to %s" % (k, i, show_stream(s)[:200], show_stream(t)[:200]))
        # (d) classification
        ids_before, ids_now = set(prev), set(vis)
        if ignore:
            prev = vis
            continue
        if ids_now != set(range(len(ids_now))):
            errs.append("step %d: ids not dense: %s" % (k, sorted(ids_now)))
        if set(st["added"]) != ids_now - ids_before:
            errs.append("step %d: added=%s but new visible ids are %s" % (k, st["added"], sorted(ids_now - ids_before)))
        if not (set(st["upd"]) | set(st["reset"])) <= ids_before:
            errs.append("step %d: updated/reset %s/%s name ids that did not exist" % (k, st["upd"], st["reset"]))
        if st["new"] != len(ids_now - ids_before):
            errs.append("step %d: %d new ids reported, %d appeared" % (k, st["new"], len(ids_now - ids_before)))
        changed = {i for i in ids_before if canon_stream(prev[i]) != canon_stream(vis[i])} if ids_before <= ids_now else set()
        if not changed <= (set(st["upd"]) | set(st["reset"])):
            errs.append("step %d: streams %s changed but are not reported as updated/reset" % (k, sorted(changed - set(st["upd"]) - set(st["reset"]))))
        prev = vis
        left = sup
    final = {i: s for i, s in prev.items() if i not in left}
    if canon_visible(final) != ref_canon:
        a, b = canon_visible(final), ref_canon
        only_run = [x for x in a if x not in b]
        only_ref = [x for x in b if x not in a]
        errs.append("final visible streams differ from the one-shot import: only here %s ; only one-shot %s" %
                    ([str(x)[:300] for x in only_run[:3]], [str(x)[:300] for x in only_ref[:3]]))
    return errs, left


def chain_alternatives(cs):
    """For a reused TCP 4-tuple: the stream sets the code can produce depending on which closed connections
    the reassembler still remembers: every partition of the chain of conversations into consecutive groups,
    each group indexed as ONE stream (first conversation's payload, all packets)."""
    exp = c05.expected_streams(cs)
    order = sorted(exp, key=lambda e: cs.packets.index(next(p for p in cs.packets if p["cid"] == e["cid"])))
    chains, others = {}, []
    for e in order:
        if e["proto"] == "TCP":
            chains.setdefault(frozenset([e["client"], e["server"]]), []).append(e)
        else:
            others.append(e)
    alts = [[]]
    for k, ch in chains.items():
        new = []
        for parts in all_partitions(len(ch)):
            grp = []
            for part in parts:
                f = dict(ch[part[0]])
                f["pk"] = list(f["pk"])
                for j in part[1:]:
                    flip = ch[j]["client"] != f["client"]
                    f["pk"] += [(a, b, ({"c": "s", "s": "c"}[d] if flip else d)) for a, b, d in ch[j]["pk"]]
                grp.append(f)
            new += [a + grp for a in alts]
        alts = new
    return [sorted((e["proto"], e["client"], e["server"], tuple(e["pk"]), tuple((d, b.hex()) for d, b in e["runs"])) for e in a + others) for a in alts]


def bridging_shape(cs, steps, vis, left):
    """The witness shape of stale-id-after-bridging-capture, checked on the schedule: every superseded stream s (covered by
    the visible stream v) is a later run of the flow that was indexed BEFORE a capture arrived whose packets lie in time
    between an earlier, also already indexed, run of v and s -- i.e. the bridging capture arrived after both neighbours."""
    arr = {}
    for k, (_, files) in enumerate(steps):
        for f in files:
            arr[f] = k
    fp = cs.file_packets()

    def ts(pk):
        return fp[pk[0]][pk[1]]["ts"]
    for i, j in left.items():
        S, V = pkset(vis[i]), pkset(vis[j])
        first_s = min(ts(p) for p in S)
        arr_s = max(arr[p[0]] for p in S)
        before = [p for p in V - S if ts(p) < first_s]
        ok = False
        for q in before:
            if arr[q[0]] > arr_s and any(ts(r) < ts(q) and arr[r[0]] < arr[q[0]] for r in before):
                ok = True
                break
        if not ok:
            return False
    return True


def same_steps(a, b):
    """the implementation's and the faithful model's observations of one run agree at every step"""
    return bool(a and b) and len(a["steps"]) == len(b["steps"]) and \
        all(c05.step_obs(x) == c05.step_obs(y) for x, y in zip(a["steps"], b["steps"]))


def classify(cs, label, run_res, ref_canon, steps_of=None, model_run=None, twin=None, have_model=True):
    """-> (verdict, errs).  A failing run is attributed to a known finding only if it has exactly that finding's shape."""
    errs, _ = oracle_run(run_res, ref_canon)
    if not errs:
        return "ok", []
    if label.startswith("ooo"):
        errs2, left = oracle_run(run_res, ref_canon, allow_leftover=True)
        # stale-id-after-bridging-capture: (1) nothing else is wrong once the superseded streams are set aside, (2) the
        # schedule has the witness shape (the bridging capture arrived after both runs it joins were indexed), (3) the
        # faithful model -- which has this defect and no other -- predicts exactly this run, (4) snapshots play no part: the
        # same schedule without snapshots ends in the same visible streams
        if not errs2 and left and steps_of is not None and bridging_shape(cs, steps_of, run_res["steps"][-1]["streams"], left) \
                and (not have_model or same_steps(run_res, model_run)) \
                and (twin is None or (twin["steps"] and canon_visible(twin["steps"][-1]["streams"]) == canon_visible(run_res["steps"][-1]["streams"]))):
            return "known:" + KF_STALE, errs
    if getattr(cs, "dgap", None) and label.startswith("snap"):
        # capture gaps in BOTH directions of a connection: only the order of the flushed direction runs may differ
        eps = {frozenset([c.client, c.server]) for c in cs.convs if c.cid in cs.dgap}

        def on_dgap(s):
            return s["proto"] == "TCP" and frozenset([s["client"], s["server"]]) in eps

        def flat(s):
            return (s["proto"], s["client"], s["server"], tuple(s["pk"]),
                    b"".join(b for d, b in s["runs"] if d == "c"), b"".join(b for d, b in s["runs"] if d == "s"))
        errs2, _ = oracle_run(run_res, ref_canon, ignore=on_dgap)
        mine = sorted(flat(s) for s in run_res["steps"][-1]["streams"].values() if on_dgap(s))
        theirs = sorted((x[0], x[1], x[2], x[3], b"".join(bytes.fromhex(h) for d, h in x[4] if d == "c"),
                         b"".join(bytes.fromhex(h) for d, h in x[4] if d == "s")) for x in ref_canon
                        if on_dgap({"proto": x[0], "client": x[1], "server": x[2]}))
        if not errs2 and mine == theirs:
            return "known:" + KF_DGAP, errs
    if cs.regime == "lossy" and getattr(cs, "lossy", None):
        eps = {frozenset([c.client, c.server]) for c in cs.convs if c.cid in cs.lossy}

        def on_lossy(s):
            return s["proto"] == "TCP" and frozenset([s["client"], s["server"]]) in eps
        errs2, _ = oracle_run(run_res, ref_canon, ignore=on_lossy)
        # the connection with the capture gap must still be there with the same packets; only its payload may differ
        same_pk = sorted((x[0], x[1], x[2], x[3]) for x in canon_visible(run_res["steps"][-1]["streams"])) == sorted((x[0], x[1], x[2], x[3]) for x in ref_canon)
        if not errs2 and same_pk:
            return "known:" + KF_QUEUED, errs
    if label.startswith("snap") or label in ("each", "nosnap"):
        frag = forgotten_tcp(cs, steps_of, run_res)
        if frag:
            def on_frag(s):
                return s["proto"] == "TCP" and frozenset([s["client"], s["server"]]) in frag
            errs2, _ = oracle_run(run_res, ref_canon, ignore=on_frag)
            if not errs2:
                return "known:" + KF_SNAPREUSE, errs
    return "violation", errs


def parse_snaps(txt):
    out = []
    if txt and txt != "-":
        for part in txt.split(";"):
            ts, refs = part.split(":", 1)
            out.append((int(ts), {tuple(map(int, r.split("."))) for r in refs.split("+") if r}))
    return out


def forgotten_tcp(cs, steps, run_res):
    """TCP 4-tuples for which some import of this run used a snapshot that no longer references earlier
    packets of the 4-tuple although the reassembler of a one-shot import would still remember the (closed)
    connection: packets of the 4-tuple exist before the snapshot time, none of them is referenced, the last of
    them is less than 5 minutes older than the snapshot, and the 4-tuple continues at or after the snapshot time.
    This is the input shape of finding snapshot-forgets-closed-tcp-4tuple."""
    fp = cs.file_packets()
    frag = set()
    avail = []
    for (flags, files), st in zip(steps, run_res["steps"]):
        if flags & 2:
            avail = []
        oldest = min(p["ts"] for f in files for p in fp[f])
        best = None
        for ts, refs in avail:
            if ts <= oldest and (best is None or ts >= best[0]):
                best = (ts, refs)
        if best:
            T, refs = best
            by = {}
            for f, plist in enumerate(fp):
                for i, p in enumerate(plist):
                    if p["proto"] == "TCP":
                        by.setdefault(frozenset([(p["src"], p["sport"]), (p["dst"], p["dport"])]), []).append((p["ts"], (f, i)))
            for k, lst in by.items():
                before = [(ts, r) for ts, r in lst if ts < T]
                after = [(ts, r) for ts, r in lst if ts >= T]
                if before and after and not any(r in refs for _, r in before) and max(ts for ts, _ in before) + c05.TIMEOUT_US >= T:
                    frag.add(k)
        avail = parse_snaps(st["snaps"])
    return frag


# ---------------------------------------------------------------- bulk sets (real snapshot interval)
def gen_bulk(rng, name, npk):
    """> 100 000 packets: many short UDP flows and some long-lived ones as background, plus generated conversations
    spread over the whole time range, cut into contiguous files so that real snapshots are created and used."""
    cs = gen_set(rng, name, "mixed")
    t_hi = max(p["ts"] for p in cs.packets) if cs.packets else 0
    span = max(t_hi, 2000 * 1000000)
    base = len(cs.convs)
    flows = []
    nflows = 40
    for i in range(nflows):
        c = c05.Conv(base + i, "UDP", ("0a0002%02x" % (i + 1), 5000 + i), ("0a0003%02x" % (i % 7 + 1), 53), [])
        flows.append(c)
    step = span // npk + 1
    ts = 0
    for n in range(npk):
        c = flows[rng.randrange(nflows)]
        d = "c" if not c.pkts else rng.choice(["c", "s"])
        b = bytes([n & 0xff]) if rng.random() < 0.7 else b""
        c.msgs.append((d, b))
        c05.pkt(c, d, ts, data=b)
        ts += rng.choice([0, step, step, 2 * step])
    flows = [c for c in flows if c.pkts]
    # long-lived conversations of the generator are stretched over the bulk: shift each later conversation
    cs.convs += flows
    allp = [p for c in cs.convs for p in c.pkts]
    allp.sort(key=lambda p: (p["ts"], p["cid"], p["seqno"]))
    cs.packets = allp
    cs.regime = "bulk"
    return cs


# ---------------------------------------------------------------- main
MODEL_DEPS = ["theories/BuilderOrder.v", "theories/Udp.v", "theories/Tcp.v", "theories/Attrib.v", "theories/Import.v"]


def model_exe():
    return build_model("C08", "ExtractC08.v", os.path.join(ROOT, "ocaml/c08"), MODEL_DEPS)[0]


def setup():
    model_exe()


def main(tier, seed, replay=None):
    t0 = time.time()
    nomodel = bool(os.environ.get("VERIF_NOMODEL"))      # development only
    proof = Proof(PROP, tier=tier)
    exe = None if nomodel else model_exe()
    rng = random.Random(seed)
    known, fixed = known_findings(PROP)
    known_ids = {k.get("id") for k in known}
    plain_sets, snap_sets = [], []          # (cs, runs)
    cdir = os.path.join(ROOT, "corpus", PROP)
    if replay:
        o = json.load(open(replay))
        (snap_sets if o.get("snap_overlay") else plain_sets).append(set_from_json(o["set"]))
    else:
        if os.path.isdir(cdir):
            for fn in sorted(os.listdir(cdir)):
                if fn.endswith(".json"):
                    o = json.load(open(os.path.join(cdir, fn)))
                    if o.get("only_if_known") and o["only_if_known"] not in known_ids:
                        continue        # witness of a finding that is not (yet) listed: reported in notes/C08.md
                    (snap_sets if o.get("snap_overlay") else plain_sets).append(set_from_json(o["set"]))
        n_main, n_ooo, n_snap, n_snapreuse, n_bulk = (150, 70, 100, 12, 0) if tier == "quick" else (800, 300, 500, 40, 2)
        for i in range(n_main):
            cs = gen_set(rng, "m%d" % i, REGIMES[i % len(REGIMES)])
            mode = rng.choice(["contig", "contig", "flowsplit"])
            if cs.regime == "tiecut":
                mode = "contig"
                c05.cut_tiecut(rng, cs)
            else:
                cut_files(rng, cs, mode)
            plain_sets.append((cs, schedules(rng, cs, mode, tier)))
        for i in range(n_ooo):
            cs = gen_set(rng, "o%d" % i, ["udp-only", "udp-reuse", "mixed", "udp-only", "reorder"][i % 5])
            cut_files(rng, cs, "contig", nfiles=rng.choice([2, 3, 3, 4]))
            if len(cs.files) > 1:
                plain_sets.append((cs, schedules_ooo(rng, cs, tier)))
        for i in range(n_ooo // 3):
            cs, first_late = gen_lossy(rng, "l%d" % i)
            if first_late:
                cut_files(rng, cs, "contig", cuts=[first_late] + rng.sample(range(1, len(cs.packets)), rng.choice([0, 1])))
                plain_sets.append((cs, schedules(rng, cs, "contig", tier)))
        for i in range(n_snap):
            cs = gen_set(rng, "s%d" % i, REGIMES[i % len(REGIMES)])
            cut_files(rng, cs, "contig")
            snap_sets.append((cs, schedules_snap(rng, cs, tier)))
        for i in range(n_ooo // 2):
            cs = gen_set(rng, "p%d" % i, ["udp-only", "udp-reuse", "mixed", "reorder", "tcp-only"][i % 5])
            cut_files(rng, cs, "contig", nfiles=rng.choice([2, 3, 3, 4]))
            if len(cs.files) > 1:
                snap_sets.append((cs, schedules_ooo_snap(rng, cs, tier)))
        for i in range(n_snapreuse):
            cs, runs = gen_late_early(rng, "e%d" % i)
            if cs:
                snap_sets.append((cs, runs))
        for i in range(n_snapreuse):
            # a cut (and a snapshot point) between the last FIN and the trailing ACK of a closed connection
            cs = gen_set(rng, "a%d" % i, "tcp-only")
            fins = [cs.packets.index(c.pkts[-1]) for c in cs.convs if c.proto == "TCP" and c.close == "fin"]
            if fins:
                cut_files(rng, cs, "contig", cuts=rng.sample(fins, rng.randrange(1, min(3, len(fins)) + 1)))
                snap_sets.append((cs, schedules_snap(rng, cs, tier, every=rng.choice([1, 2]))))
        for i in range(n_snapreuse):
            cs = gen_set(rng, "r%d" % i, "tcp-reuse-early")
            # cut where a later connection of the reused 4-tuple starts (so that a snapshot can lie in between)
            starts = [cs.packets.index(c.pkts[0]) for c in cs.convs if c.proto == "TCP" and c.pkts[0] is not cs.packets[0]]
            cut_files(rng, cs, "contig", cuts=rng.sample(starts, rng.randrange(1, len(starts) + 1)))
            snap_sets.append((cs, schedules_snap(rng, cs, tier, every=rng.choice([1, 2, 3]))))
        for i in range(n_bulk):
            cs = gen_bulk(rng, "b%d" % i, 110000 + 40000 * i)
            cut_files(rng, cs, "contig", nfiles=rng.choice([3, 4, 5]))
            nf = len(cs.files)
            runs = [("oneshot", 100000, [(0, list(range(nf)))]),
                    ("each", 100000, [(rng.choice([0, 1]), [f]) for f in range(nf)]),
                    ("nosnap", 100000, [(2, [f]) for f in range(nf)])]
            plain_sets.append((cs, runs))
    names = [cs.name for cs, _ in plain_sets + snap_sets]
    if len(set(names)) != len(names):
        raise ValueError("duplicate capture-set names: %s" % sorted(n for n in set(names) if names.count(n) > 1))
    notes = ""
    res, mres, dt_go, dt_model = {}, {}, 0.0, 0.0
    for tag, group, ov in (("plain", plain_sets, None), ("snap", snap_sets, "overlay")):
        if not group:
            continue
        text = "".join(render_case(cs, runs) for cs, runs in group)
        r, note, cf, dt = run_impl(text, tag, prop="c08", overlay_extra=(c05.snap_overlay() if ov else None), timeout=1500)
        notes += note
        dt_go += dt
        res[tag] = r
        if nomodel:
            mres[tag] = r
        else:
            m, mnote, dtm = run_model(exe, cf, tag, prop="c08")
            notes += mnote
            dt_model += dtm
            mres[tag] = m
    nviol, kf_seen, verdicts, model_diffs, drift = 0, {}, {}, 0, 0
    unexplained_diffs = 0
    regimes, samples, snaps_used = {}, [], 0
    for tag, group in (("plain", plain_sets), ("snap", snap_sets)):
        for cs, runs in group:
            regimes[cs.regime + "/" + tag] = regimes.get(cs.regime + "/" + tag, 0) + 1
            rr = res[tag].get(cs.name, {})
            ref = rr.get("oneshot")
            bad = []
            if not ref or not ref["steps"] or ref["panic"]:
                bad.append(("oneshot", ["no result for the one-shot import: %s" % (ref and ref["panic"])]))
                ref_canon = None
            else:
                ref_canon = canon_visible(ref["steps"][-1]["streams"])
            for label, _, steps in runs:
                r = rr.get(label)
                if ref_canon is None:
                    break
                if not r or len(r["steps"]) != len(steps) or r["panic"]:
                    bad.append((label, ["harness produced no/incomplete result: %s" % (r and r["panic"])]))
                    continue
                snaps_used += sum(1 for st in r["steps"] if st["snaps"] != "-")
                v, errs = classify(cs, label, r, ref_canon, steps, model_run=mres[tag].get(cs.name, {}).get(label),
                                   twin=rr.get(label + "-nosnap"), have_model=not nomodel)
                if replay:
                    print("run %s %s: %s" % (label, steps, v))
                    for e in errs:
                        print("    " + e[:500])
                    mr = mres[tag].get(cs.name, {}).get(label)
                    for who, rr_ in (("impl ", r), ("model", mr), ("spec = one-shot impl", ref)):
                        if rr_ and rr_["steps"]:
                            print("    %s visible after the last import:" % who)
                            for s_ in rr_["steps"][-1]["streams"].values():
                                print("        id %d %s" % (s_["id"], show_stream(s_)[:300]))
                if v.startswith("known:") and v.split(":", 1)[1] not in known_ids:
                    errs = errs + ["(shape of finding %s, which is not listed in KNOWN_FINDINGS.txt)" % v.split(":", 1)[1]]
                    v = "violation"
                verdicts[v] = verdicts.get(v, 0) + 1
                if v.startswith("known:"):
                    kf_seen.setdefault(v.split(":", 1)[1], []).append((cs.name + "/" + label, errs[0][:300]))
                elif v == "violation":
                    bad.append((label, errs))
            harness_only = bad and all(e and e[0].startswith(("harness produced no", "no result for the one-shot")) for _, e in bad)
            if harness_only:
                # a harness failure is not a failing input of the property: run the set alone once more
                out1, note1, _, _ = run_impl(render_case(cs, runs), "retry", prop="c08", overlay_extra=(c05.snap_overlay() if tag == "snap" else None))
                o1 = out1.get(cs.name, {})
                complete = all(l in o1 and len(o1[l]["steps"]) == len(st) and not o1[l]["panic"] for l, _, st in runs)
                if complete:
                    res[tag][cs.name] = o1
                    rr = o1
                    ref_canon = canon_visible(o1["oneshot"]["steps"][-1]["streams"])
                    bad = []
                    for label, _, steps in runs:
                        v, errs = classify(cs, label, o1[label], ref_canon, steps, model_run=mres[tag].get(cs.name, {}).get(label),
                                           twin=o1.get(label + "-nosnap"), have_model=not nomodel)
                        if v.startswith("known:") and v.split(":", 1)[1] not in known_ids:
                            v = "violation"
                        if v == "violation":
                            bad.append((label, errs))
                else:
                    violation(PROP, {"property": PROP, "broken": "correspondence harness produced no complete result for a generated set (twice)",
                                     "set_name": cs.name, "labels": [l for l, _, _ in runs], "note": note1[-1500:], "seed": seed}, no_input=True)
                    nviol += 1
                    bad = []
            if bad and nviol == 0:
                label, errs = bad[0]
                keep = [r for r in runs if r[0] in ("oneshot", label, label + "-nosnap")]

                def fails(cids, cs=cs, keep=keep, label=label, tag=tag):
                    sub, r2 = nonempty_runs(restrict(cs, cids), keep)
                    if not sub.packets or any(not st for _, _, st in r2):
                        return False
                    out, _, cfm, _ = run_impl(render_case(sub, r2), "min", prop="c08", overlay_extra=(c05.snap_overlay() if tag == "snap" else None))
                    o = out.get(sub.name, {})
                    if "oneshot" not in o or label not in o or not o["oneshot"]["steps"]:
                        return False
                    mo = {} if nomodel else run_model(exe, cfm, "min", prop="c08")[0].get(sub.name, {})
                    return classify(sub, label, o[label], canon_visible(o["oneshot"]["steps"][-1]["streams"]), [r for r in r2 if r[0] == label][0][2],
                                    model_run=mo.get(label), twin=o.get(label + "-nosnap"), have_model=not nomodel)[0] == "violation"
                cids = [c.cid for c in cs.convs]
                if len(cs.packets) < 3000:
                    cids = ddmin(cids, fails, max_tests=40)
                sub, r2 = nonempty_runs(restrict(cs, cids), keep)
                out, _, _, _ = run_impl(render_case(sub, r2), "min", prop="c08", overlay_extra=(c05.snap_overlay() if tag == "snap" else None))
                o = out.get(sub.name, {})
                obj = {"property": PROP, "kind": "impl!=oracle", "snap_overlay": tag == "snap", "errors": errs[:8], "run": label,
                       "set": set_to_json(sub, r2) if len(sub.packets) < 3000 else {"name": sub.name, "note": "bulk set, regenerate with seed", "packets": len(sub.packets)},
                       "impl": {l: [[show_stream(s)[:400] for s in st["streams"].values()] for st in o[l]["steps"]] for l in o},
                       "seed": seed, "replay_cmd": "bin/check C08 --replay <this file>"}
                violation(PROP, obj)
                nviol += 1
            elif bad:
                nviol += 1
            l, why = diff_model_impl(cs, runs, res[tag], mres[tag])
            drift += snaps_drift(cs, runs, res[tag], mres[tag])
            if l is not None:
                model_diffs += 1
                if replay:
                    print("model/impl difference in run %s: %s" % (l, why[:600]))
                if not bad:
                    unexplained_diffs += 1
                if not bad and unexplained_diffs == 1:
                    violation(PROP, {"property": PROP, "kind": "model!=impl", "snap_overlay": tag == "snap",
                                     "broken": "correspondence: the extracted model of the import (theories/Import.v) and builder.FromPcap disagree on an input where the implementation meets the oracle; the theorems no longer describe this code",
                                     "run": l, "difference": why[:1500],
                                     "set": set_to_json(cs, runs) if len(cs.packets) < 3000 else {"name": cs.name, "packets": len(cs.packets)}, "seed": seed}, no_input=True)
                    nviol += 1
            if len(samples) < 4 and not bad:
                samples.append({"regime": cs.regime, "overlay": tag, "files": cs.files, "packets": len(cs.packets), "runs": [[l, se, st] for l, se, st in runs][:4]})
    what = {KF_STALE: "out-of-order arrival: a later-arriving capture bridges two already indexed runs of one flow; the second run's id stays visible beside the rewritten first one",
            KF_DGAP: "a connection with capture gaps in both directions: whether a snapshot is used changes which inactivity flush emits the queued payload, hence the order of the direction runs (same bytes per direction)",
            KF_QUEUED: "TCP payload queued behind a capture gap is emitted by the inactivity flush of a later import that does not rewrite the stream: batched import lacks bytes the one-shot import shows",
            KF_SNAPREUSE: "snapshot availability changes the result when a TCP 4-tuple is reused within 5 minutes of its close (with a snapshot the closed connection is forgotten and the new one is indexed; without, it is swallowed)"}
    for slug, where in sorted(kf_seen.items()):
        print("KNOWN-FINDING: property=%s id=%s %s [%d runs, e.g. %s]" % (PROP, slug, what[slug], len(where), where[0][0]), flush=True)
    if notes:
        violation(PROP, {"property": PROP, "broken": "correspondence harness could not run against this tree", "note": notes[-3000:]}, no_input=True)
        nviol += 1
    if not proof.good() and nviol == 0:
        violation(PROP, {"property": PROP, "broken": proof.failure_text()}, no_input=True)
        nviol += 1
    cov = proof.coverage()
    allsets = plain_sets + snap_sets
    cov.update({
        "trusted_base": TRUSTED_COMMON + [
            "gopacket (decoding, TCP reassembly, ip4defrag) and libpcap are MODELLED, not verified (theories/Tcp.v is an ideal reassembler); tie by correspondence only",
            "snapshot regimes of the quick tier run builder.go with the literal `nPacketsAfterSnapshot >= 100_000` replaced by a variable (go -overlay, generated from the working tree, fails if the literal is not found exactly once); the thorough tier also runs the unmodified interval with > 100 000 packets",
            "index writer/reader (C01) and the manager's chaining of import jobs are exercised / out of scope respectively: the reader stack is passed to FromPcap in creation order as manager.importPcapJob does"],
        "evaluations": sum(len(r) for _, r in allsets),
        "distinct_nontrivial": len({(cs.name, l) for cs, runs in allsets for l, _, st in runs if len(st) >= 2 and len(cs.packets) >= 4}),
        "rule": "capture sets of the C05 generator; schedules: all partitions of <=4 contiguous files into chronological batches, arrival permutations of per-flow files, Builder restart (new Builder on the same dirs, readers reopened) and snapshot dropping between imports, snapshot interval 1..30 packets (overlay) and 100 000 (thorough), out-of-order arrival kept apart; non-trivial = >= 2 imports and >= 4 packets; every run compared with the one-shot import (id-free), per step: id stability, packet-disjointness of visible ids, classification/id counter; and with the extracted model after every import",
        "regimes": regimes, "verdicts": verdicts, "steps_with_snapshots": snaps_used,
        "model_impl_differences": model_diffs, "internal_drift": {"snapshot lists differing (not an alarm)": drift},
        "known_findings_seen": {k: len(v) for k, v in kf_seen.items()}, "known_finding_examples": {k: v[0] for k, v in kf_seen.items()},
        "fixed_findings": fixed, "go_seconds": round(dt_go, 1), "model_seconds": round(dt_model, 1), "coq_seconds": round(proof.seconds, 1),
        "samples": samples, "disagreements": nviol,
    })
    write_evidence(PROP, tier, seed, cov,
                   ["arrival hypothesis of the proved theorem: every new capture's packets sort after all packets already imported (chronological arrival) or touch disjoint flows",
                    "assembler hypotheses (online, append-only, flow-local) are proved for the UDP model and assumed for gopacket's TCP reassembly"],
                   time.time() - t0, nviol)
    return 1 if nviol else 0
