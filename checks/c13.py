"""C13 -- index files live exactly as long as they are needed.
Shares the gated scenario run, the model and the machinery with checks/c10.py (see there);
this entry point evaluates the C13 oracles (holder counting, directory listing, reads through
held views, Status) and the theorems of props/C13.v, and writes evidence/C13.json."""
import c10


def main(tier, seed, replay=None):
    return c10.main_for("C13", tier, seed, replay)


def setup():
    return c10.setup()
