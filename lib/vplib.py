"""Shared machinery for the /verif checks (see DESIGN.md section 2).

Every check = (1) make the Coq target of the property (all theorems re-checked
when a source changed), (2) gate against Admitted/Axiom/..., (3) Print Assumptions
of the property theorems, (4) build the extracted model driver, (5) run the Go
harness on /repo's working tree through `go test -overlay`, (6) compare, search a
failing input, write evidence.
"""
import fcntl
import hashlib
import json
import os
import random
import re
import shutil
import subprocess
import sys
import time

ROOT = os.path.dirname(os.path.dirname(os.path.abspath(__file__)))
REPO = os.environ.get("VERIF_REPO", "/repo")
COQ = os.path.join(ROOT, "coq")
BUILD = os.path.join(ROOT, "build")
EVID = os.path.join(ROOT, "evidence")
REPLAYS = os.path.join(ROOT, "replays")
KNOWN = os.path.join(ROOT, "KNOWN_FINDINGS.txt")

FORBIDDEN = re.compile(
    r"\b(Admitted|admit|Axiom|Axioms|Parameter|Parameters|Conjecture|Conjectures|Abort All)\b"
    r"|Unset\s+Guard|bypass_check|Admit\s+Obligations|type-in-type|impredicative-set"
    r"|Unset\s+Positivity|Unset\s+Universe\s+Checking")


def log(*a):
    print(*a, file=sys.stderr, flush=True)


def go_env():
    e = dict(os.environ)
    e["GOFLAGS"] = "-mod=mod"
    e["GOPROXY"] = "off"
    e.pop("GOTOOLCHAIN", None)
    e.pop("GOSUMDB", None)
    e.setdefault("GOCACHE", os.path.join(os.path.expanduser("~"), ".cache", "go-build"))
    return e


def run(cmd, cwd=None, env=None, timeout=None, stdin=None):
    t0 = time.time()
    try:
        p = subprocess.run(cmd, cwd=cwd, env=env, timeout=timeout, input=stdin,
                           stdout=subprocess.PIPE, stderr=subprocess.STDOUT, text=True)
        return p.returncode, p.stdout, time.time() - t0
    except subprocess.TimeoutExpired as ex:
        out = ex.stdout or ""
        if isinstance(out, bytes):
            out = out.decode("utf8", "replace")
        return 124, out + "\nTIMEOUT", time.time() - t0


class Lock:
    def __init__(self, name):
        os.makedirs(BUILD, exist_ok=True)
        self.path = os.path.join(BUILD, name + ".lock")

    def __enter__(self):
        self.f = open(self.path, "w")
        fcntl.flock(self.f, fcntl.LOCK_EX)

    def __exit__(self, *a):
        fcntl.flock(self.f, fcntl.LOCK_UN)
        self.f.close()


# ---------------------------------------------------------------- Coq side
def coq_makefile():
    """_CoqProject lists every theories/*.v and props/*.v present (regenerated, so adding a
    file needs no shared edit); the Makefile is regenerated when the list changed."""
    files = sorted("theories/" + f for f in os.listdir(os.path.join(COQ, "theories")) if f.endswith(".v") and not f.startswith("."))
    files += sorted("props/" + f for f in os.listdir(os.path.join(COQ, "props")) if f.endswith(".v") and not f.startswith("."))
    text = "-Q theories Pk\n-Q props PkProps\n-arg -w -arg -notation-overridden,-deprecated-hint-without-locality,-ambiguous-paths\n" + "\n".join(files) + "\n"
    cp = os.path.join(COQ, "_CoqProject")
    if not os.path.exists(cp) or open(cp).read() != text:
        open(cp, "w").write(text)
    mk = os.path.join(COQ, "Makefile")
    if not os.path.exists(mk) or os.path.getmtime(mk) < os.path.getmtime(cp):
        rc, out, _ = run(["coq_makefile", "-f", "_CoqProject", "-o", "Makefile"], cwd=COQ)
        if rc != 0:
            raise RuntimeError("coq_makefile failed:\n" + out)


def coq_make(targets, timeout=3000):
    """Full .vo build of the given targets (never -vos). Returns (ok, log, seconds)."""
    with Lock("coq"):
        coq_makefile()
        rc, out, dt = run(["make", "-j16"] + list(targets), cwd=COQ, timeout=timeout)
    return rc == 0, out, dt


def coq_deps(vfile):
    """Transitive project-local .v dependencies of a .v file (via coqdep)."""
    seen, todo = [], [vfile]
    while todo:
        f = todo.pop()
        if f in seen:
            continue
        seen.append(f)
        rc, out, _ = run(["coqdep", "-Q", "theories", "Pk", "-Q", "props", "PkProps", f], cwd=COQ)
        for m in re.finditer(r"(\S+)\.vo\b", out.split(":", 1)[1] if ":" in out else ""):
            cand = m.group(1) + ".v"
            if os.path.exists(os.path.join(COQ, cand)) and cand not in seen:
                todo.append(cand)
    return seen


def strip_comments(src):
    out, depth, i = [], 0, 0
    while i < len(src):
        if src.startswith("(*", i):
            depth += 1
            i += 2
        elif src.startswith("*)", i) and depth:
            depth -= 1
            i += 2
        else:
            if depth == 0:
                out.append(src[i])
            i += 1
    return "".join(out)


def gate(files):
    """No Admitted/admit/Axiom/Parameter/... anywhere; Variable/Hypothesis only inside a Section."""
    bad = []
    for f in files:
        src = strip_comments(open(os.path.join(COQ, f)).read())
        for m in FORBIDDEN.finditer(src):
            bad.append("%s: %s" % (f, m.group(0)))
        depth = 0
        for line in src.splitlines():
            s = line.strip()
            if re.match(r"Section\s+\w+", s):
                depth += 1
            elif re.match(r"End\s+\w+\s*\.", s) and depth:
                depth -= 1
            elif re.match(r"(Variables?|Hypothes[ie]s|Context)\b", s) and depth == 0:
                bad.append("%s: %s outside a Section" % (f, s.split()[0]))
    return bad


def count_statements(files):
    n, names = 0, []
    for f in files:
        src = strip_comments(open(os.path.join(COQ, f)).read())
        for m in re.finditer(r"^\s*(?:Local\s+|Global\s+)?(Theorem|Lemma|Corollary|Proposition|Fact|Example|Remark)\s+([\w']+)", src, re.M):
            n += 1
            names.append(m.group(2))
    return n, names


def print_assumptions(prop):
    """Compile a scratch file that prints the assumptions of every Theorem in props/<prop>.v."""
    pf = os.path.join(COQ, "props", prop + ".v")
    src = strip_comments(open(pf).read())
    thms = re.findall(r"^\s*Theorem\s+([\w']+)", src, re.M)
    d = os.path.join(BUILD, "assum")
    os.makedirs(d, exist_ok=True)
    fn = os.path.join(d, "Assum%s.v" % prop)
    with open(fn, "w") as f:
        f.write("Require Import PkProps.%s.\n" % prop)
        for t in thms:
            f.write('Print Assumptions %s.\n' % t)
    rc, out, _ = run(["coqc", "-Q", os.path.join(COQ, "theories"), "Pk", "-Q",
                      os.path.join(COQ, "props"), "PkProps", fn], cwd=d, timeout=600)
    res = {}
    chunks = re.split(r"(?=Closed under the global context|Axioms:)", out)
    chunks = [c.strip() for c in chunks if c.strip()]
    for t, c in zip(thms, chunks):
        res[t] = " ".join(c.split())
    return rc == 0 and len(chunks) == len(thms), thms, res, out


def sha(paths):
    h = hashlib.sha256()
    for p in paths:
        h.update(p.encode())
        h.update(open(p, "rb").read())
    return h.hexdigest()


def build_model(prop, extract_v, driver_dir, deps):
    """Extract the model to OCaml (ExtrOcamlBasic only) and compile the driver.
    Returns path of the executable. Cached by hash of model sources + driver."""
    low = prop.lower()
    d = os.path.join(BUILD, "ocaml", low)
    os.makedirs(d, exist_ok=True)
    exe = os.path.join(d, low + "_modelrun")
    srcs = [os.path.join(COQ, x) for x in deps] + [os.path.join(COQ, "extract", extract_v)]
    srcs += sorted(os.path.join(driver_dir, x) for x in os.listdir(driver_dir) if x.endswith(".ml"))
    stamp = os.path.join(d, "stamp")
    h = sha(srcs)
    if os.path.exists(exe) and os.path.exists(stamp) and open(stamp).read() == h:
        return exe, ""
    with Lock("ocaml_" + low):
        shutil.copy(os.path.join(COQ, "extract", extract_v), d)
        rc, out, _ = run(["coqc", "-Q", os.path.join(COQ, "theories"), "Pk", extract_v], cwd=d, timeout=900)
        if rc != 0:
            raise RuntimeError("extraction failed:\n" + out)
        mls = []
        for x in sorted(os.listdir(driver_dir)):
            if x.endswith(".ml"):
                shutil.copy(os.path.join(driver_dir, x), d)
                mls.append(x)
        model = low + "_model"
        # driver.ml last
        mls = [m for m in mls if m != "driver.ml"] + ["driver.ml"]
        rc, out2, _ = run(["ocamlfind", "ocamlopt", "-package", "str", "-linkpkg", "-w", "-a", "-O3",
                           model + ".mli", model + ".ml"] + mls + ["-o", exe], cwd=d, timeout=900)
        if rc != 0:
            raise RuntimeError("ocaml build failed:\n" + out2)
        open(stamp, "w").write(h)
    return exe, out + out2


# ---------------------------------------------------------------- Go side
def go_overlay(files, name):
    """files: {path relative to REPO: absolute source path}. Returns overlay json path."""
    d = os.path.join(BUILD, "overlay")
    os.makedirs(d, exist_ok=True)
    p = os.path.join(d, name + ".json")
    json.dump({"Replace": {os.path.join(REPO, k): v for k, v in files.items()}}, open(p, "w"))
    return p


def go_test(pkg, overlay, runpat, env_extra=None, timeout=900, tags="verif", race=False, extra=None):
    env = go_env()
    env.update(env_extra or {})
    cmd = ["go", "test", "-count=1", "-vet=off", "-tags", tags, "-overlay", overlay, "-run", runpat,
           "-timeout", "%ds" % timeout]
    if race:
        cmd.append("-race")
    cmd += (extra or []) + [pkg]
    return run(cmd, cwd=REPO, env=env, timeout=timeout + 60)


# ---------------------------------------------------------------- findings / evidence
def known_findings(prop):
    known, fixed = [], []
    if os.path.exists(KNOWN):
        for line in open(KNOWN):
            line = line.strip()
            if line.startswith("known:") and ("property=%s " % prop) in line + " ":
                kv = dict(re.findall(r"(\w+)=(\S+)", line))
                kv["text"] = line
                known.append(kv)
            elif line.startswith("fixed:") and ("property=%s " % prop) in line + " ":
                fixed.append(line)
    return known, fixed


def write_replay(prop, obj):
    d = os.path.join(REPLAYS, prop)
    os.makedirs(d, exist_ok=True)
    blob = json.dumps(obj, indent=1, sort_keys=True)
    p = os.path.join(d, hashlib.sha256(blob.encode()).hexdigest()[:16] + ".json")
    open(p, "w").write(blob)
    return p


def violation(prop, replay_obj, no_input=False):
    p = write_replay(prop, replay_obj)
    print("VIOLATION property=%s replay=%s%s" % (prop, p, " no-failing-input-found" if no_input else ""), flush=True)
    return p


def write_evidence(prop, tier, seed, coverage, assumptions, wall, violations, level="proof"):
    os.makedirs(EVID, exist_ok=True)
    ev = {"property_id": prop, "tier": tier, "seed": seed, "level": level, "coverage": coverage,
          "assumptions": assumptions, "wall_s": round(wall, 2), "violations": violations}
    open(os.path.join(EVID, prop + ".json"), "w").write(json.dumps(ev, indent=1))


def ddmin(items, fails, max_tests=400):
    """Delta debugging: smallest sublist (order kept) for which fails(sublist) is True."""
    n, tests = 2, 0
    while len(items) >= 2 and tests < max_tests:
        chunk = max(1, len(items) // n)
        subsets = [items[i:i + chunk] for i in range(0, len(items), chunk)]
        reduced = False
        for i in range(len(subsets)):
            comp = [x for j, s in enumerate(subsets) if j != i for x in s]
            tests += 1
            if comp and fails(comp):
                items, n, reduced = comp, max(n - 1, 2), True
                break
        if not reduced:
            if chunk == 1:
                break
            n = min(len(items), n * 2)
    return items


def coqchk(prop, timeout=3300):
    """Independent re-check of props/<prop>.vo and everything it depends on (thorough tier)."""
    with Lock("coq"):
        rc, out, dt = run(["coqchk", "-silent", "-o", "-Q", "theories", "Pk", "-Q", "props", "PkProps",
                           "PkProps." + prop], cwd=COQ, timeout=timeout)
    m = re.search(r"\* Axioms:(.*?)\n\s*\n\* ", out, re.S)
    axioms = " ".join(m.group(1).split()) if m else "?"
    return rc == 0, axioms, dt, out[-1500:]


class Proof:
    """Result of the Coq side of a check. tier='thorough' additionally runs coqchk."""

    def __init__(self, prop, extra_targets=(), tier=None):
        self.prop = prop
        self.tier = tier
        self.chk = None
        t0 = time.time()
        self.target = "props/%s.vo" % prop
        self.ok, self.log, _ = coq_make([self.target] + list(extra_targets))
        self.files = coq_deps("props/%s.v" % prop)
        self.gate = gate(self.files)
        self.obligations, self.names = count_statements(self.files)
        self.assum_ok, self.theorems, self.assum, self.assum_log = (False, [], {}, "")
        if self.ok:
            self.assum_ok, self.theorems, self.assum, self.assum_log = print_assumptions(prop)
        self.axioms = sorted({a for v in self.assum.values() if v.startswith("Axioms:") for a in [v]})
        if tier == "thorough" and self.ok:
            self.chk = coqchk(prop)
        self.seconds = time.time() - t0

    def good(self):
        return self.ok and not self.gate and self.assum_ok and (self.chk is None or self.chk[0])

    def failure_text(self):
        if not self.ok:
            m = re.findall(r'File "([^"]+)", line (\d+).*?\n(?:.*\n){0,6}?Error:(.*(?:\n .*)*)', self.log)
            return "make %s failed: %s" % (self.target, m[:2] if m else self.log[-1500:])
        if self.gate:
            return "forbidden construct: " + "; ".join(self.gate)
        if self.chk is not None and not self.chk[0]:
            return "coqchk failed: " + self.chk[3]
        return "Print Assumptions failed: " + self.assum_log[-800:]

    def coverage(self):
        return {
            "obligations": self.obligations,
            "discharged": self.obligations if self.good() else 0,
            "checker_cmd": "cd /verif/coq && coq_makefile -f _CoqProject -o Makefile && make -j16 %s  (coqc 8.16.1, full .vo); "
                           "gate: no Admitted/admit/Axiom/Parameter/Conjecture/Unset Guard in %d files; Print Assumptions of %d property theorems"
                           % (self.target, len(self.files), len(self.theorems)),
            "property_theorems": self.theorems,
            "print_assumptions": self.assum,
            "coq_files": self.files,
            "coqchk": ({"ok": self.chk[0], "axioms": self.chk[1], "seconds": round(self.chk[2], 1),
                        "cmd": "coqchk -silent -o -Q theories Pk -Q props PkProps PkProps.%s" % self.prop}
                       if self.chk is not None else "thorough tier only"),
        }


TRUSTED_COMMON = [
    "Coq 8.16.1 kernel (coqc, full .vo build; vm_compute only inside Examples/_refuted witnesses; no native_compute)",
    "no axioms declared; Print Assumptions of every property theorem is recorded under coverage.print_assumptions",
    "extraction: Require Extraction + ExtrOcamlBasic only (bool, option, unit, list, prod, sumbool, sumor -> OCaml types); no Extract Constant; numbers stay positive/N/Z/nat",
    "OCaml driver (case parsing / printing) and OCaml 4.13.1 compiler",
    "Go harness injected with go test -overlay (add-only files) and the Python comparator/generator (lib/vplib.py, checks/*.py)",
]
