(* C17 model driver: replays the op histories of the case file on the extracted
   Coq model and prints the same observation lines as the Go harness. *)
open C17_model

let rec pos_of_int (i : int) : positive =
  if i = 1 then XH else if i land 1 = 0 then XO (pos_of_int (i lsr 1)) else XI (pos_of_int (i lsr 1))
let n_of_int (i : int) : n = if i = 0 then N0 else Npos (pos_of_int i)
let rec int_of_pos = function XH -> 1 | XO p -> 2 * int_of_pos p | XI p -> 2 * int_of_pos p + 1
let int_of_n = function N0 -> 0 | Npos p -> int_of_pos p

let b2s b = if b then "1" else "0"
type reg = { c : (n * n) list; s : n list; l : n list }
let empty = { c = []; s = [N0]; l = [] }
let nregs = 4

let () =
  let ic = open_in Sys.argv.(1) in
  let oc = open_out Sys.argv.(2) in
  let regs = Array.make nregs empty in
  (try
     while true do
       let line = input_line ic in
       if line <> "" then begin
         let ops, probes =
           match String.index_opt line ';' with
           | None -> (line, [])
           | Some i ->
               let p = String.trim (String.sub line (i + 1) (String.length line - i - 1)) in
               ( String.sub line 0 i,
                 if p = "" then []
                 else List.map (fun x -> n_of_int (int_of_string x)) (String.split_on_char ',' p) )
         in
         let tok = List.filter (fun x -> x <> "") (String.split_on_char ' ' ops) in
         let arr = Array.of_list tok in
         let ai i = int_of_string arr.(i) in
         let an i = n_of_int (ai i) in
         if arr.(0) = "H" then begin
           Array.fill regs 0 nregs empty;
           output_string oc ("H " ^ arr.(1) ^ "\n")
         end else begin
           let d = ai 1 in
           let r = regs.(d) in
           let ret = ref "" in
           let nr =
             match arr.(0) with
             | "set" -> let b = an 2 in { c = c_set r.c b; s = w_set r.s b; l = w_set r.l b }
             | "unset" -> let b = an 2 in { c = c_unset r.c b; s = s_unset r.s b; l = l_unset r.l b }
             | "flip" -> let b = an 2 in { c = c_flip r.c b; s = w_flip r.s b; l = w_flip r.l b }
             | "or" -> let o = regs.(ai 2) in { c = c_or r.c o.c; s = w_or r.s o.s; l = w_or r.l o.l }
             | "and" -> let o = regs.(ai 2) in { c = c_and r.c o.c; s = w_and r.s o.s; l = w_and r.l o.l }
             | "xor" -> let o = regs.(ai 2) in { c = c_xor r.c o.c; s = w_xor r.s o.s; l = w_xor r.l o.l }
             | "sub" -> let o = regs.(ai 2) in { c = c_sub r.c o.c; s = w_sub r.s o.s; l = w_sub r.l o.l }
             | "orc" -> let a = regs.(ai 2) and o = regs.(ai 3) in
                 { c = c_or a.c o.c; s = w_or a.s o.s; l = w_or a.l o.l }
             | "andc" -> let a = regs.(ai 2) and o = regs.(ai 3) in
                 { c = c_and a.c o.c; s = w_and a.s o.s; l = w_and a.l o.l }
             | "xorc" -> let a = regs.(ai 2) and o = regs.(ai 3) in
                 { c = c_xor a.c o.c; s = w_xor a.s o.s; l = w_xor a.l o.l }
             | "subc" -> let a = regs.(ai 2) and o = regs.(ai 3) in
                 { c = c_sub a.c o.c; s = w_sub a.s o.s; l = w_sub a.l o.l }
             | "copy" -> let a = regs.(ai 2) in { c = c_copy a.c; s = a.s; l = a.l }
             | "shrink" -> { c = r.c; s = s_shrink r.s; l = l_shrink r.l }
             | "inject" -> let b = an 2 and v = arr.(3) = "1" in
                 { c = c_inject r.c b v; s = w_inject r.s b v; l = w_inject r.l b v }
             | "extract" ->
                 let b = an 2 in
                 let c', rc = c_extract r.c b in
                 let s', rs = s_extract r.s b in
                 let len = int_of_n (w_len s') in
                 let l' = ref [] in
                 for i = 0 to len - 1 do
                   if w_isset s' (n_of_int i) then l' := w_set !l' (n_of_int i)
                 done;
                 ret := " ret=" ^ b2s rc ^ b2s rs;
                 { c = c'; s = s'; l = !l' }
             | "make" ->
                 let mn = ai 2 and mx = ai 3 in
                 let s' = ref [N0] and l' = ref [] in
                 for i = mn to mx do
                   s' := w_set !s' (n_of_int i);
                   l' := w_set !l' (n_of_int i)
                 done;
                 { c = c_make (n_of_int mn) (n_of_int mx); s = !s'; l = !l' }
             | op -> failwith ("unknown op " ^ op)
           in
           regs.(d) <- nr;
           let buf = Buffer.create 256 in
           let obs name isset count len zero equal proj =
             Buffer.add_string buf name;
             List.iter (fun p -> Buffer.add_string buf (b2s (isset (proj nr) p))) probes;
             Buffer.add_string buf
               (Printf.sprintf "/%d/%d/%s/" (int_of_n (count (proj nr))) (int_of_n (len (proj nr)))
                  (b2s (zero (proj nr))));
             Array.iter (fun o -> Buffer.add_string buf (b2s (equal (proj nr) (proj o)))) regs
           in
           obs "C:" c_isset c_count c_len c_iszero c_equal (fun x -> x.c);
           obs " S:" w_isset w_count w_len w_iszero w_equal (fun x -> x.s);
           obs " L:" w_isset w_count w_len w_iszero w_equal (fun x -> x.l);
           Buffer.add_string buf "/";
           List.iteri
             (fun i p ->
               if i <> 0 then Buffer.add_string buf ",";
               match l_next nr.l p with
               | Some q -> Buffer.add_string buf (string_of_int (int_of_n q))
               | None -> Buffer.add_string buf "-")
             probes;
           Buffer.add_string buf !ret;
           Buffer.add_char buf '\n';
           Buffer.output_buffer oc buf
         end
       end
     done
   with End_of_file -> ());
  close_out oc
