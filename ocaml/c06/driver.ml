(* C06/C16/C09 model driver: replays the action lists of the scenario harness on the extracted
   Coq model (theories/Tags.v).  The only hidden nondeterminism of the model is the tag chosen by
   startTaggingJobIfNeeded (Go map iteration order): the driver keeps the set of model states that
   agree with the implementation's projected state after every action (pick ranges over all names).
   Output: one line per action: "OK <n>" or "DIVERGE expected=<..> got=<..>;<..>". *)
open C06_model

let rec pos_of_int (i : int) : positive =
  if i = 1 then XH else if i land 1 = 0 then XO (pos_of_int (i lsr 1)) else XI (pos_of_int (i lsr 1))
let n_of_int (i : int) : n = if i = 0 then N0 else Npos (pos_of_int i)
let rec int_of_pos = function XH -> 1 | XO p -> 2 * int_of_pos p | XI p -> 2 * int_of_pos p + 1
let int_of_n = function N0 -> 0 | Npos p -> int_of_pos p
let rec nat_of_int i = if i <= 0 then O else S (nat_of_int (i - 1))
let rec int_of_nat = function O -> 0 | S n -> 1 + int_of_nat n

let split c s = if s = "" || s = "-" then [] else String.split_on_char c s
let ints c s = List.map int_of_string (split c s)
let ns c s = List.map (fun x -> n_of_int (int_of_string x)) (split c s)
let b s = s = "1"

let parse_def s =
  (* id:idonly:sub:datatime:data:main;main:subt;subt:mark *)
  match String.split_on_char ':' s with
  | [i; io; su; dt; da; mn; st; mk] ->
      { d_id = n_of_int (int_of_string i); d_idonly = b io; d_sub = b su; d_datatime = b dt; d_data = b da;
        d_main = ns ';' mn; d_subt = ns ';' st; d_mark = b mk }
  | _ -> failwith ("bad def " ^ s)

let parse_action (tok : string array) : action =
  let n i = n_of_int (int_of_string tok.(i)) in
  match tok.(0) with
  | "import" -> AImport (ns ',' tok.(1))
  | "addtag" -> AAddTag (n 1, parse_def tok.(2), n 3)
  | "deltag" -> ADelTag (n 1)
  | "query" -> AQuery (n 1, parse_def tok.(2))
  | "markadd" -> AMarkAdd (n 1, ns ',' tok.(2), n 3)
  | "markdel" -> AMarkDel (n 1, ns ',' tok.(2), n 3)
  | "setconv" -> ASetConv (n 1, ns ',' tok.(2))
  | "bimport" ->
      ABodyImport { ir_proc = nat_of_int (int_of_string tok.(1)); ir_upd = n 2; ir_rst = n 3; ir_add = n 4; ir_next = n 5;
                    ir_idx = ns ';' tok.(6) }
  | "btag" ->
      ABodyTag (List.map (fun kv -> match String.split_on_char '=' kv with
                                    | [k; v] -> (n_of_int (int_of_string k), n_of_int (int_of_string v))
                                    | _ -> failwith "btag") (split ';' tok.(1)))
  | "bconv" ->
      (* failing (converter, stream) pairs: c:i,c:i *)
      let pairs = if Array.length tok < 2 then [] else
          List.map (fun kv -> match String.split_on_char ':' kv with
                              | [c; i] -> (n_of_int (int_of_string c), n_of_int (int_of_string i))
                              | _ -> failwith "bconv") (split ',' tok.(1)) in
      ABodyConvert pairs
  | "bmerge" -> ABodyMerge
  | "complete" ->
      AComplete (match tok.(1) with "import" -> JImport | "tag" -> JTag | "convert" -> JConvert | "merge" -> JMerge
                                    | _ -> failwith "kind")
  | "vopen" -> AViewOpen (n 1)
  | "vdata" -> AViewData (n 1, n 2, n 3)
  | "vclose" -> AViewClose (n 1)
  | "nop" -> AImport []
  | x -> failwith ("unknown action " ^ x)

let isome = function Some _ -> "1" | None -> "0"

let proj (st : state) : string =
  let bset l = List.fold_left (fun a x -> a lor (1 lsl int_of_n x)) 0 l in
  let tagsS =
    String.concat ";"
      (List.map (fun (nm, t) ->
           let m = int_of_n t.t_m and u = int_of_n t.t_u in
           Printf.sprintf "%d:%d:%d:%d:%d" (int_of_n nm) (int_of_n t.t_def.d_id) (m land (lnot u)) u (bset t.t_conv))
         (List.rev (List.filter (fun (_, t) -> t.t_live) st.tags))) in
  let tc = String.concat ";" (List.map (fun c -> Printf.sprintf "%d:%d" (int_of_n c) (int_of_n (st.toconv c))) st.convs) in
  let nx = int_of_n st.next in
  let ca =
    String.concat ";"
      (List.map (fun c ->
           let cur = ref 0 and stale = ref 0 in
           for i = 0 to nx + 2 do
             match st.cache c (n_of_int i) with
             | Some v -> if int_of_n v = int_of_n (st.ver (n_of_int i)) then cur := !cur lor (1 lsl i) else stale := !stale lor (1 lsl i)
             | None -> ()
           done;
           Printf.sprintf "%d:%d:%d" (int_of_n c) !cur !stale) st.convs) in
  let ix = String.concat "," (List.map (fun s -> string_of_int (int_of_n (popcount s))) st.idx) in
  let jt = match st.jtag with Some j -> (match j.tj_res with Some _ -> "2" | None -> "1") | None -> "0" in
  let jc = match st.jconv with Some j -> if j.cj_done then "2" else "1" | None -> "0" in
  let jm = match st.jmerge with Some j -> (match j.mj_res with Some _ -> "2" | None -> "1") | None -> "0" in
  let ji = match st.jimp with Some j -> (match j.ij_resp with Some _ -> "2" | None -> "1") | None -> "0" in
  Printf.sprintf "next=%d|tags=%s|j=%s%s%s%s|q=%s|tc=%s|ca=%s|ix=%s|me=%s" nx tagsS jt jc jm ji
    (String.concat "," (List.map (fun x -> string_of_int (int_of_n x)) st.queue)) tc ca ix
    (isome (merge_eligible st))

(* everything the projection does not show: two candidates may only be merged when they agree on ALL of it
   (Matches bits of uncertain streams, masks, the sets of the converter job, ... decide later steps) *)
let hidden (st : state) : string =
  let i = int_of_n in
  let nx = i st.next + 2 in
  let ids = List.init (nx + 1) (fun x -> n_of_int x) in
  let il l = String.concat "," (List.map (fun x -> string_of_int (i x)) l) in
  let pl l = String.concat "," (List.map (fun (a, b) -> Printf.sprintf "%d=%d" (i a) (i b)) l) in
  let fn f = il (List.map f ids) in
  let tags = String.concat ";" (List.map (fun (nm, t) ->
      Printf.sprintf "%d:%d:%d:%d:%s:%b" (i nm) (i t.t_def.d_id) (i t.t_m) (i t.t_u) (il t.t_conv) t.t_live) st.tags) in
  let jt = match st.jtag with
    | Some j -> Printf.sprintf "%d/%d/%d/%d/%s/%s/%s" (i j.tj_name) (i j.tj_def.d_id) (i j.tj_m) (i j.tj_u) (il j.tj_conv) (pl j.tj_snap)
                  (match j.tj_res with Some r -> string_of_int (i r) | None -> "-")
    | None -> "-" in
  let jc = match st.jconv with
    | Some j -> Printf.sprintf "%s/%s/%d/%b" (pl j.cj_sets) (fn j.cj_ver) (i j.cj_next) j.cj_done
    | None -> "-" in
  let jm = match st.jmerge with
    | Some j -> Printf.sprintf "%d/%s/%s" (int_of_nat j.mj_off) (il j.mj_idx) (match j.mj_res with Some r -> il r | None -> "-")
    | None -> "-" in
  let ji = match st.jimp with
    | Some j -> Printf.sprintf "%d/%s" (int_of_nat j.ij_files) (isome j.ij_resp)
    | None -> "-" in
  let cache = String.concat ";" (List.map (fun c ->
      String.concat "," (List.map (fun x -> match st.cache c x with Some v -> string_of_int (i v) | None -> "-") ids)) st.convs) in
  let views = String.concat ";" (List.map (fun (v, sv) -> Printf.sprintf "%d:%s" (i v) (fn sv)) st.views) in
  Printf.sprintf "%s|%d,%d,%d,%d|%s|%s|%s|%s|%s|%s|%s|%d|%s" tags (i st.m_upd) (i st.m_rst) (i st.m_add) (i st.m_cupd)
    jt jc jm ji cache (fn st.ver) (il st.idx) (int_of_nat st.unmerge) views

let () =
  let ic = open_in Sys.argv.(1) in
  let oc = open_out Sys.argv.(2) in
  let k = ref faithful in
  let states = ref [] in
  let dead = ref false in
  let pools : (string, line list list) Hashtbl.t = Hashtbl.create 4 in
  (try
     while true do
       let line = input_line ic in
       if line <> "" then begin
         match line.[0] with
         | 'K' ->
             let t = Array.of_list (String.split_on_char ' ' line) in
             k := { kf_inherit = b t.(1); kf_idonly = b t.(2); kf_reset = b t.(3); kf_inflight = b t.(4);
                    kf_mergeconv = b t.(5); kf_viewstore = b t.(6); kf_detachreset = b t.(7) }
         | 'P' ->
             (* process pool of one converter: P <conv> <chunks v:c,v:c> || <expected: E | c,c>
                the model (kill rule) answers the request; compared with what Converter.Data returned *)
             let sep = " || " in
             let rec find i = if i + 4 > String.length line then failwith "no sep" else if String.sub line i 4 = sep then i else find (i + 1) in
             let p = find 0 in
             let toks = Array.of_list (List.filter (fun x -> x <> "") (String.split_on_char ' ' (String.sub line 2 (p - 2)))) in
             let expected = String.trim (String.sub line (p + 4) (String.length line - p - 4)) in
             let cs = List.map (fun kv -> match String.split_on_char ':' kv with
                                          | [v; c] -> (v = "1", n_of_int (int_of_string c))
                                          | _ -> failwith "P") (split ',' toks.(1)) in
             let pl = try Hashtbl.find pools toks.(0) with Not_found -> [] in
             let (o, pl') = request true (answer cs) pl in
             Hashtbl.replace pools toks.(0) pl';
             let got = match o with None -> "E" | Some l -> String.concat "," (List.map (fun x -> string_of_int (int_of_n x)) l) in
             if got = expected then output_string oc "OK 1\n"
             else output_string oc (Printf.sprintf "DIVERGE expected=pool=%s got=pool=%s\n" expected got)
         | 'S' ->
             Hashtbl.reset pools;
             let t = Array.of_list (String.split_on_char ' ' line) in
             states := [ init (ns ',' t.(2)) ];
             dead := false;
             output_string oc ("S " ^ t.(1) ^ "\n")
         | 'A' ->
             (* A <expected> | tokens *)
             let bar = String.index line '|' in
             (* expected projection itself contains '|' : separator is " || " *)
             ignore bar;
             let sep = " || " in
             let rec find i = if i + 4 > String.length line then failwith "no sep" else if String.sub line i 4 = sep then i else find (i + 1) in
             let p = find 0 in
             let expected = String.sub line 2 (p - 2) in
             let toks = Array.of_list (List.filter (fun x -> x <> "") (String.split_on_char ' ' (String.sub line (p + 4) (String.length line - p - 4)))) in
             if !dead then output_string oc "SKIP\n"
             else begin
               let a = parse_action toks in
               let picks = List.map n_of_int [0; 1; 2; 3; 4; 5; 6; 7] in
               let next_states = List.concat_map (fun st -> List.map (fun pk -> step !k pk a st) picks) !states in
               (* dedupe *)
               let seen = Hashtbl.create 16 in
               let uniq = List.filter (fun st -> let key = proj st ^ "#" ^ hidden st in
                                         if Hashtbl.mem seen key then false else (Hashtbl.add seen key (); true)) next_states in
               let ok = List.filter (fun st -> proj st = expected) uniq in
               if expected = "?" then begin
                 states := uniq;
                 output_string oc (Printf.sprintf "FREE %d %s\n" (List.length uniq) (String.concat " ;; " (List.map proj uniq)))
               end else if ok = [] then begin
                 dead := true;
                 output_string oc (Printf.sprintf "DIVERGE expected=%s got=%s\n" expected (String.concat " ;; " (List.map proj uniq)))
               end else begin
                 states := ok;
                 output_string oc (Printf.sprintf "OK %d\n" (List.length ok))
               end
             end
         | _ -> ()
       end
     done
   with End_of_file -> ());
  close_out oc
