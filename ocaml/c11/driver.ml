(* C11 model driver: replays the call sequences of the case file on the extracted
   Coq model (TagApi.step / step_orig) and prints, per call, the result and the tag table.
   Case file (tokens separated by one blank; strings as 'x'+hex; lists comma separated, '-' = empty):
     S <seq> <next> <converters> <fixed|orig>
     P <def> <err> <data> <rel> <group> <idsok> <main> <sub> <ids>     parse table entry (query.Parse, from the harness)
     A <name> <color> <def> | D <name> | UC <name> <color> | UQ <name> <def> | UN <name> <newname>
     UV <name> <converters> | UA <name> <ids> | UD <name> <ids> | N (restart of the service: no-op)
     JS <name> (a tagging job starts for the tag) | JD (its completion runs) *)
module M = C11_model

let rec pos_of_int (i : int) : M.positive =
  if i = 1 then M.XH else if i land 1 = 0 then M.XO (pos_of_int (i lsr 1)) else M.XI (pos_of_int (i lsr 1))
let n_of_int (i : int) : M.n = if i = 0 then M.N0 else M.Npos (pos_of_int i)
let rec int_of_pos = function M.XH -> 1 | M.XO p -> 2 * int_of_pos p | M.XI p -> 2 * int_of_pos p + 1
let int_of_n = function M.N0 -> 0 | M.Npos p -> int_of_pos p

let ascii_of_char (c : char) : M.ascii =
  let k = Char.code c in
  let b i = (k lsr i) land 1 = 1 in
  M.Ascii (b 0, b 1, b 2, b 3, b 4, b 5, b 6, b 7)
let char_of_ascii (M.Ascii (b0, b1, b2, b3, b4, b5, b6, b7)) : char =
  let v b i = if b then 1 lsl i else 0 in
  Char.chr (v b0 0 + v b1 1 + v b2 2 + v b3 3 + v b4 4 + v b5 5 + v b6 6 + v b7 7)
let coq_of_string (s : Stdlib.String.t) : M.string =
  let r = ref M.EmptyString in
  for i = Stdlib.String.length s - 1 downto 0 do r := M.String (ascii_of_char s.[i], !r) done;
  !r
let string_of_coq (s : M.string) : Stdlib.String.t =
  let b = Buffer.create 16 in
  let rec go = function M.EmptyString -> () | M.String (a, r) -> Buffer.add_char b (char_of_ascii a); go r in
  go s; Buffer.contents b

let unhex (t : Stdlib.String.t) : Stdlib.String.t =
  (* 'x' + hex digits *)
  let n = (Stdlib.String.length t - 1) / 2 in
  Stdlib.String.init n (fun i -> Char.chr (int_of_string ("0x" ^ Stdlib.String.sub t (1 + 2 * i) 2)))
let hex (s : Stdlib.String.t) : Stdlib.String.t =
  let b = Buffer.create 16 in
  Buffer.add_char b 'x';
  Stdlib.String.iter (fun c -> Buffer.add_string b (Printf.sprintf "%02x" (Char.code c))) s;
  Buffer.contents b
let cs t = coq_of_string (unhex t)
let split_list t = if t = "-" then [] else Stdlib.String.split_on_char ',' t
let names t = Stdlib.List.map cs (split_list t)
let nums t = Stdlib.List.map (fun x -> n_of_int (int_of_string x)) (split_list t)
let flag t = t = "1"

let err_name = function
  | M.EBadName -> "badname" | M.EEmptySub -> "emptysub" | M.ERetype -> "retype" | M.EParse -> "parse"
  | M.ERelTime -> "reltime" | M.EGrouping -> "grouping" | M.ESelfRef -> "selfref" | M.ECycle -> "cycle"
  | M.EMarkNotId -> "marknotid" | M.EExists -> "exists" | M.EUnknownRef -> "unknownref"
  | M.EUnknownTag -> "unknowntag" | M.EUnknownConv -> "unknownconv" | M.EUnknownStream -> "unknownstream"
  | M.ENotMark -> "notmark" | M.EReferenced -> "referenced" | M.EComplex -> "complex" | M.ESaveState -> "savestate"

let join l = if l = [] then "-" else Stdlib.String.concat "," l

let dump (st : M.state) : Stdlib.String.t =
  let rows =
    Stdlib.List.map
      (fun (k, t) ->
        let sl l = join (Stdlib.List.sort compare (Stdlib.List.map (fun x -> hex (string_of_coq x)) l)) in
        let nl l = join (Stdlib.List.map string_of_int (Stdlib.List.sort_uniq compare (Stdlib.List.map int_of_n l))) in
        Stdlib.String.concat ";"
          [ hex (string_of_coq k); hex (string_of_coq t.M.t_def); hex (string_of_coq t.M.t_color);
            sl t.M.t_convs; sl t.M.t_refby; nl t.M.t_matches ])
      (M.tags st)
  in
  Stdlib.String.concat " | " (Stdlib.List.sort compare rows)

let () =
  let ic = open_in Sys.argv.(1) in
  let oc = open_out Sys.argv.(2) in
  let st = ref (M.init_state [] M.N0) in
  let orig = ref false in
  let job : (M.string * M.tag) option ref = ref None in
  let table : (Stdlib.String.t, M.parse_result) Hashtbl.t = Hashtbl.create 64 in
  let parse (s : M.string) : M.parse_result =
    match Hashtbl.find_opt table (string_of_coq s) with
    | Some r -> r
    | None -> failwith ("no parse entry for " ^ string_of_coq s)
  in
  (try
     while true do
       let line = input_line ic in
       if line <> "" then begin
         let a = Array.of_list (Stdlib.String.split_on_char ' ' line) in
         let call c =
           let r, st' = if !orig then M.step_orig parse !st c else M.step parse !st c in
           st := st';
           let rs = match r with M.Ok -> "ok" | M.Err e -> "err:" ^ err_name e | M.Crash -> "crash" | M.Hang -> "hang" in
           output_string oc ("R " ^ rs ^ " | " ^ dump !st ^ "\n")
         in
         match a.(0) with
         | "S" ->
             Hashtbl.reset table;
             st := M.init_state (names a.(3)) (n_of_int (int_of_string a.(2)));
             orig := (a.(4) = "orig");
             job := None;
             output_string oc ("S " ^ a.(1) ^ "\n")
         | "P" ->
             let r =
               if flag a.(2) then M.PErr
               else
                 M.POk { M.p_main = names a.(7); M.p_sub = names a.(8); M.p_data = flag a.(3); M.p_rel = flag a.(4);
                         M.p_group = flag a.(5); M.p_ids = (if flag a.(6) then Some (nums a.(9)) else None) }
             in
             Hashtbl.replace table (unhex a.(1)) r
         | "JS" ->   (* a tagging job starts for the tag: it gets a copy of the stored tag *)
             job := (match M.get (M.tags !st) (cs a.(1)) with Some t -> Some (cs a.(1), t) | None -> None);
             output_string oc ("R ok | " ^ dump !st ^ "\n")
         | "JD" ->   (* its completion closure runs *)
             (match !job with Some (n, snap) -> st := M.complete_job !st n snap | None -> ());
             job := None;
             output_string oc ("R ok | " ^ dump !st ^ "\n")
         | "N" -> output_string oc ("R ok | " ^ dump !st ^ "\n")    (* restart: the model state is unchanged *)
         | "A" -> call (M.CAdd (cs a.(1), cs a.(2), cs a.(3)))
         | "D" -> call (M.CDel (cs a.(1)))
         | "UC" -> call (M.CUpd (cs a.(1), M.UColor (cs a.(2))))
         | "UQ" -> call (M.CUpd (cs a.(1), M.UQuery (cs a.(2))))
         | "UN" -> call (M.CUpd (cs a.(1), M.UName (cs a.(2))))
         | "UV" -> call (M.CUpd (cs a.(1), M.UConv (names a.(2))))
         | "UA" -> call (M.CUpd (cs a.(1), M.UMarkAdd (nums a.(2))))
         | "UD" -> call (M.CUpd (cs a.(1), M.UMarkDel (nums a.(2))))
         | x -> failwith ("bad line " ^ x)
       end
     done
   with End_of_file -> ());
  close_out oc
