(* C05/C08 model driver: reads the capture-set cases that the Go harness reads, runs the
   extracted Coq model of builder.FromPcap for every RUN / IMPORT and prints the same
   observation lines (STEP ... / S ...) as harness/c05/zz_verif_c05_test.go. *)
open C05_model

let rec pos_of_int (i : int) : positive =
  if i = 1 then XH else if i land 1 = 0 then XO (pos_of_int (i lsr 1)) else XI (pos_of_int (i lsr 1))
let n_of_int (i : int) : n = if i = 0 then N0 else Npos (pos_of_int i)
let rec int_of_pos = function XH -> 1 | XO p -> 2 * int_of_pos p | XI p -> 2 * int_of_pos p + 1
let int_of_n = function N0 -> 0 | Npos p -> int_of_pos p

(* arbitrary-size numbers <-> hex strings (addresses) *)
let hexval c = match c with '0' .. '9' -> Char.code c - 48 | 'a' .. 'f' -> Char.code c - 87 | 'A' .. 'F' -> Char.code c - 55 | _ -> failwith "hex"
let n_of_bits (bits : bool list) : n =
  (* bits: most significant first *)
  List.fold_left
    (fun acc b -> match acc, b with
       | N0, false -> N0
       | N0, true -> Npos XH
       | Npos p, false -> Npos (XO p)
       | Npos p, true -> Npos (XI p))
    N0 bits
let n_of_hex (s : string) : n =
  let bits = ref [] in
  String.iter (fun c -> let v = hexval c in bits := (v land 1 = 1) :: (v land 2 = 2) :: (v land 4 = 4) :: (v land 8 = 8) :: !bits) s;
  n_of_bits (List.rev !bits)
let bits_of_n (x : n) : bool list =
  (* least significant first *)
  let rec go p = match p with XH -> [ true ] | XO q -> false :: go q | XI q -> true :: go q in
  match x with N0 -> [] | Npos p -> go p
let hex_of_n (x : n) (digits : int) : string =
  let bits = Array.make (digits * 4) false in
  List.iteri (fun i b -> if i < digits * 4 then bits.(i) <- b) (bits_of_n x);
  String.init digits (fun d ->
      let base = (digits - 1 - d) * 4 in
      let v = (if bits.(base) then 1 else 0) + (if bits.(base + 1) then 2 else 0) + (if bits.(base + 2) then 4 else 0) + (if bits.(base + 3) then 8 else 0) in
      "0123456789abcdef".[v])

(* addresses: IPv4 = the 32 bit value, IPv6 = 2^128 + value *)
let addr_of_hex s = if String.length s = 8 then n_of_hex s else n_of_hex ("1" ^ s)
let hex_of_addr a =
  let nb = List.length (bits_of_n a) in
  if nb <= 32 then hex_of_n a 8 else hex_of_n a 32

let bytes_of_hex s =
  if s = "-" then []
  else List.init (String.length s / 2) (fun i -> n_of_int (hexval s.[2 * i] * 16 + hexval s.[(2 * i) + 1]))
let hex_of_bytes (l : n list) =
  let b = Buffer.create 64 in
  List.iter (fun x -> Buffer.add_string b (Printf.sprintf "%02x" (int_of_n x))) l;
  Buffer.contents b

type case = {
  mutable name : string;
  mutable files : string list;                    (* declared order *)
  mutable pkts : (int * string array) list;      (* (declared file index, tokens), reversed *)
  mutable runs : (string * int * (int * int list) list) list;   (* reversed; steps reversed *)
}

let join sep l = String.concat sep l
let ids_str l = match l with [] -> "-" | _ -> join "," (List.map (fun x -> string_of_int (int_of_n x)) l)

(* argv[3] = "flushall": the tree under test calls Assembler.FlushAll after the packet loop *)
let final_flush = Array.length Sys.argv > 3 && Sys.argv.(3) = "flushall"

let run_case oc (c : case) =
  let files = Array.of_list c.files in
  let nf = Array.length files in
  (* rank of a file name in string order *)
  let sorted = List.sort compare (Array.to_list files) in
  let rank_of = Array.map (fun f -> let rec idx i = function [] -> failwith "rank" | x :: r -> if x = f then i else idx (i + 1) r in idx 0 sorted) files in
  let decl_of_rank = Array.make nf 0 in
  Array.iteri (fun d r -> decl_of_rank.(r) <- d) rank_of;
  (* sequence numbers: the model is an ideal reassembler on unbounded numbers; the 32 bit values of the
     capture are unwrapped per directed 4-tuple around the first value seen (+2^32) *)
  let bases : (string, int) Hashtbl.t = Hashtbl.create 16 in
  let unwrap key seq syn =
    let m = 1 lsl 32 in
    if syn then Hashtbl.replace bases key seq;      (* a new connection restarts the numbering *)
    match Hashtbl.find_opt bases key with
    | None -> Hashtbl.add bases key seq; seq + m
    | Some b -> let d = ((seq - b + (m / 2)) land (m - 1)) - (m / 2) in b + m + d
  in
  let per = Array.make nf [] in
  let cnt = Array.make nf 0 in
  List.iter
    (fun (f, tok) ->
      let i = cnt.(f) in
      cnt.(f) <- i + 1;
      let tcp = tok.(7) = "T" in
      let flags = if tcp then tok.(8) else "" in
      let has ch = String.contains flags ch in
      let p = { p_ts = n_of_int (int_of_string tok.(2)); p_file = n_of_int rank_of.(f); p_idx = n_of_int i;
                p_src = (addr_of_hex tok.(3), n_of_int (int_of_string tok.(4)));
                p_dst = (addr_of_hex tok.(5), n_of_int (int_of_string tok.(6)));
                p_tcp = tcp; p_syn = has 'S'; p_ackf = has 'A'; p_fin = has 'F'; p_rst = has 'R';
                p_seq = (if tcp then n_of_int (unwrap (tok.(3) ^ ":" ^ tok.(4) ^ ">" ^ tok.(5) ^ ":" ^ tok.(6)) (int_of_string tok.(9)) (has 'S')) else N0);
                p_data = bytes_of_hex (if tcp then tok.(11) else tok.(8)) } in
      per.(f) <- p :: per.(f))
    (List.rev c.pkts);
  let store = List.init nf (fun f -> (n_of_int rank_of.(f), List.rev per.(f))) in
  Printf.fprintf oc "CASE %s\n" c.name;
  List.iter
    (fun (label, snapevery, steps) ->
      Printf.fprintf oc "RUN %s\n" label;
      let b = ref { b_known = []; b_snaps = [] } in
      let stack = ref [] in
      List.iteri
        (fun k (flags, fl) ->
          if flags land 2 <> 0 then b := { !b with b_snaps = [] };
          let newfiles = List.map (fun f -> n_of_int rank_of.(f)) fl in
          let b', r = import (fun a -> a) (n_of_int snapevery) final_flush !b store newfiles !stack in
          b := b';
          let nw, upd, rs, ad =
            match r with
            | Some res ->
                (match res.r_index with [] -> () | ix -> stack := !stack @ [ ix ]);
                (string_of_int (int_of_n res.r_new), ids_str res.r_upd, ids_str res.r_reset, ids_str res.r_added)
            | None -> ("0", "-", "-", "-")
          in
          let snaps =
            match b'.b_snaps with
            | [] -> "-"
            | l ->
                join ";"
                  (List.map
                     (fun s ->
                       let refs = List.map (fun (f, i) -> Printf.sprintf "%d.%d" decl_of_rank.(int_of_n f) (int_of_n i)) s.sn_refs in
                       Printf.sprintf "%d:%s" (int_of_n s.sn_ts) (join "+" (List.sort compare refs)))
                     l)
          in
          Printf.fprintf oc "STEP %d proc=%d new=%s upd=%s reset=%s added=%s err=- snaps=%s\n" k (List.length fl) nw upd rs ad snaps;
          let vis = List.sort (fun (a, _) (b, _) -> compare (int_of_n a) (int_of_n b)) (visible !stack) in
          List.iter
            (fun (id, s) ->
              let pk =
                List.map
                  (fun (((f, i), _), d) -> Printf.sprintf "%d.%d.%s" decl_of_rank.(int_of_n f) (int_of_n i) (if d then "s" else "c"))
                  (stream_packets s)
              in
              let ds = List.map (fun (d, bytes) -> (if d then "s" else "c") ^ hex_of_bytes bytes) (stream_data s) in
              Printf.fprintf oc "S %d %s %s:%d %s:%d %s %s\n" (int_of_n id) (if s.s_tcp then "TCP" else "UDP")
                (hex_of_addr (fst s.s_client)) (int_of_n (snd s.s_client))
                (hex_of_addr (fst s.s_server)) (int_of_n (snd s.s_server))
                (match pk with [] -> "-" | _ -> join "," pk)
                (match ds with [] -> "-" | _ -> join "," ds))
            vis)
        (List.rev steps);
      Printf.fprintf oc "ENDRUN\n")
    (List.rev c.runs);
  Printf.fprintf oc "END\n";
  flush oc

let () =
  let ic = open_in Sys.argv.(1) in
  let oc = open_out Sys.argv.(2) in
  let c = { name = ""; files = []; pkts = []; runs = [] } in
  (try
     while true do
       let line = input_line ic in
       let tok = Array.of_list (List.filter (fun x -> x <> "") (String.split_on_char ' ' line)) in
       if Array.length tok > 0 then
         match tok.(0) with
         | "CASE" -> c.name <- tok.(1); c.files <- []; c.pkts <- []; c.runs <- []
         | "F" -> c.files <- c.files @ [ tok.(1) ]
         | "P" -> c.pkts <- (int_of_string tok.(1), tok) :: c.pkts
         | "RUN" -> c.runs <- (tok.(1), (if Array.length tok > 2 then int_of_string tok.(2) else 100000), []) :: c.runs
         | "IMPORT" ->
             let fl = List.map int_of_string (List.tl (List.tl (Array.to_list tok))) in
             (match c.runs with
              | (l, se, st) :: r -> c.runs <- (l, se, (int_of_string tok.(1), fl) :: st) :: r
              | [] -> failwith "IMPORT before RUN")
         | "END" -> run_case oc c
         | _ -> ()
     done
   with End_of_file -> ());
  close_out oc
