(* C10/C13 model driver: replays the action lists the Go harness resolved (case file) on the
   extracted Coq model (theories/Indexes.v) and prints one observation line per action, in the
   format checks/c10.py parses (parse_model_line). After every action every open view is read
   (ARead), exactly as the harness queries every open view after every action.
   Environment inputs of the model (number of uncertain tags after a closure, converter scheduler finds
   work) come from the case file as "envunc n" / "envconv b" lines that precede the action (observed on the
   implementation by the harness).
   argv: cases out [legacy]      legacy = model of View.fetch before /repo 7300a1b
         enum cases out          enumerate every schedule of a fixed API action list *)
open C10_model

let rec pos_of_int (i : int) : positive =
  if i = 1 then XH else if i land 1 = 0 then XO (pos_of_int (i lsr 1)) else XI (pos_of_int (i lsr 1))
let n_of_int (i : int) : n = if i = 0 then N0 else Npos (pos_of_int i)
let rec int_of_pos = function XH -> 1 | XO p -> 2 * int_of_pos p | XI p -> 2 * int_of_pos p + 1
let int_of_n = function N0 -> 0 | Npos p -> int_of_pos p

let si n = string_of_int (int_of_n n)
let join sep f l = String.concat sep (List.map f l)
let ents es = join "," (fun e -> si e.e_id ^ ":" ^ si e.e_flow ^ ":" ^ si e.e_ver) es
let ph = function AtStart -> "start" | AtDone -> "done"

let print_state oc (st : state) =
  let b = Buffer.create 256 in
  Buffer.add_string b "idx=";
  Buffer.add_string b (join ";" (fun f -> si f.f_uid ^ "[" ^ ents f.f_ents ^ "]") st.indexes);
  Buffer.add_string b " used=";
  Buffer.add_string b (join "," (fun (k, c) -> si k ^ ":" ^ si c) st.used);
  Buffer.add_string b " disk=";
  Buffer.add_string b (join "," si st.disk);
  Buffer.add_string b " views=";
  Buffer.add_string b
    (join "|" (fun (v, s) -> si v ^ ":" ^ join "." (fun f -> si f.f_uid) s ^ "/" ^ ents (all_streams s)) st.views);
  Buffer.add_string b " queue=";
  Buffer.add_string b (join "," si st.queue);
  Buffer.add_string b " jobs=";
  let js =
    (match st.cjob with Some j -> [ "convert:" ^ ph j.cj_phase ] | None -> [])
    @ (match st.ijob with Some j -> [ "import:" ^ ph j.ij_phase ] | None -> [])
    @ (match st.mjob with Some j -> [ "merge:" ^ ph j.mj_phase ] | None -> [])
    @ (match st.tjob with Some j -> [ "tag:" ^ ph j.tj_phase ] | None -> [])
  in
  Buffer.add_string b (String.concat "," js);
  Buffer.add_string b (" proc=" ^ join "," si st.processed);
  Buffer.add_string b (" unc=" ^ si st.unc);
  Buffer.add_string b (" next=" ^ si st.next_id);
  Buffer.add_char b '\n';
  Buffer.output_buffer oc b

let kind_of = function
  | "import" -> KImport
  | "merge" -> KMerge
  | "tag" -> KTag
  | "convert" -> KConvert
  | k -> failwith ("unknown job kind " ^ k)

let parse_action op args =
  match (op, args) with
  | "import", ks -> AImport (List.map (fun s -> n_of_int (int_of_string s)) ks)
  | "view", [ v ] | "view", [ v; "p" ] -> AView (n_of_int (int_of_string v))
  | "read", [ v ] -> ARead (n_of_int (int_of_string v))
  | "release", [ v ] -> ARelease (n_of_int (int_of_string v))
  | "tagadd", _ -> ATagAdd
  | "tagdel", [ h ] -> ATagDel (h = "1")
  | "tagupd", [ h ] -> ATagUpd (h = "1")
  | "mergefail", _ -> AMergeFail
  | "marknew", _ -> AMarkNew
  | "markedit", _ -> AMarkEdit
  | "convset", _ -> AConvSet
  | "convremove", _ -> AConvRemove
  | "convadd", _ -> AConvAdd
  | "envunc", [ n ] -> AEnvUnc (n_of_int (int_of_string n))
  | "envconv", [ b ] -> AEnvConvWork (b = "1")
  | "start", [ k ] -> AStart (kind_of k)
  | "complete", [ k ] -> AComplete (kind_of k)
  | _ -> failwith ("bad action " ^ op)

let parse_packets pk =
  List.map
    (fun s ->
      match String.split_on_char ':' s with
      | [ f; b ] -> (n_of_int (int_of_string f), n_of_int (int_of_string b))
      | _ -> failwith "bad packet")
    pk

(* ---- enumeration of every schedule of a fixed API action list (thorough tier) ----
   input: H name / cap lines / "api <action>" lines / "limit n"; output: "H name" then one line per
   complete schedule: tokens a (next API action) i m t (step of the parked import/merge/tag job).
   The tag environment is generated here: every tag of these histories has a data filter, so an import that creates
   a file makes all tags uncertain, a published tagging result makes its tag certain unless an import completed
   meanwhile; histories with tagdel1 / tagupd1 have a single tag. *)
type tagenv = { nt : int; un : int; dirty : bool }

let enumerate () =
  let ic = open_in Sys.argv.(2) in
  let oc = open_out Sys.argv.(3) in
  let caps : (int * (n * n) list) list ref = ref [] in
  let capdb (k : n) : (n * n) list = try List.assoc (int_of_n k) !caps with Not_found -> [] in
  let bads : int list ref = ref [] in
  let bad (k : n) : bool = List.mem (int_of_n k) !bads in
  let api : string list ref = ref [] and limit = ref 1000 and name = ref "" in
  (* one action with the environment the implementation would produce *)
  let apply (st, te) (a : action) =
    let has_ids = st.next_id <> N0 in
    let te' =
      match a with
      | ATagAdd -> { te with nt = te.nt + 1; un = (te.un + if has_ids then 1 else 0) }
      | ATagDel _ -> { te with nt = te.nt - 1; un = (if te.un > 0 then te.un - 1 else 0) }
      | ATagUpd _ -> { te with un = ((if te.un > 0 then te.un - 1 else 0) + if has_ids then 1 else 0) }
      | AComplete KImport -> (
          match st.ijob with
          | Some j when j.ij_phase = AtDone && j.ij_created <> [] -> { te with un = te.nt; dirty = true }
          | _ -> te)
      | AComplete KTag -> (
          match st.tjob with
          | Some j when j.tj_phase = AtDone && j.tj_valid -> { te with un = (if te.dirty then te.nt else te.un - 1) }
          | _ -> te)
      | _ -> te
    in
    let st1 = step_impl capdb bad st (AEnvUnc (n_of_int te'.un)) in
    let st2 = if enabled st1 a then step_impl capdb bad st1 a else st in
    (* a tagging job launched by this closure resets the during-tagging masks *)
    let launched =
      match (st.tjob, st2.tjob, a) with
      | None, Some _, _ -> true
      | Some _, Some _, AComplete KTag -> true
      | _ -> false
    in
    (st2, if launched then { te' with dirty = false } else te')
  in
  let flush_case () =
    if !name <> "" then begin
      output_string oc ("H " ^ !name ^ "\n");
      let count = ref 0 in
      let rec go (st, te) rest path =
        if !count < !limit then begin
          let jobs =
            (match st.ijob with Some j -> [ ("i", if j.ij_phase = AtStart then AStart KImport else AComplete KImport) ] | None -> [])
            @ (match st.mjob with Some j -> [ ("m", if j.mj_phase = AtStart then AStart KMerge else AComplete KMerge) ] | None -> [])
            @ (match st.tjob with Some j -> [ ("t", if j.tj_phase = AtStart then AStart KTag else AComplete KTag) ] | None -> [])
          in
          if rest = [] && jobs = [] then begin
            count := !count + 1;
            output_string oc (String.concat " " (List.rev path) ^ "\n")
          end
          else begin
            (match rest with
            | line :: tl ->
                let a =
                  match List.filter (fun x -> x <> "") (String.split_on_char ' ' line) with
                  | [ "tagdel1" ] -> ATagDel (te.un > 0 && st.tjob <> None)
                  | [ "tagupd1" ] -> ATagUpd (te.un > 0 && st.tjob <> None)
                  | op :: args -> parse_action op args
                  | [] -> failwith "empty api"
                in
                go (apply (st, te) a) tl ("a" :: path)
            | [] -> ());
            List.iter (fun (tok, a) -> go (apply (st, te) a) rest (tok :: path)) jobs
          end
        end
      in
      go (init, { nt = 0; un = 0; dirty = false }) (List.rev !api) [];
      output_string oc (Printf.sprintf "# %d%s\n" !count (if !count >= !limit then " (limit)" else ""))
    end
  in
  (try
     while true do
       let line = String.trim (input_line ic) in
       let tok = List.filter (fun x -> x <> "") (String.split_on_char ' ' line) in
       match tok with
       | "H" :: nm -> flush_case (); name := String.concat " " nm; caps := []; api := []; bads := []
       | [ "bad"; k ] -> bads := int_of_string k :: !bads
       | "cap" :: k :: pk -> caps := (int_of_string k, parse_packets pk) :: !caps
       | "api" :: rest -> api := String.concat " " rest :: !api
       | "limit" :: [ n ] -> limit := int_of_string n
       | _ -> ()
     done
   with End_of_file -> ());
  flush_case ();
  close_out oc

let () =
  if Sys.argv.(1) = "enum" then (enumerate (); exit 0);
  let ic = open_in Sys.argv.(1) in
  let oc = open_out Sys.argv.(2) in
  let legacy = Array.length Sys.argv > 3 && Sys.argv.(3) = "legacy" in
  let caps : (int * (n * n) list) list ref = ref [] in
  let capdb (k : n) : (n * n) list = try List.assoc (int_of_n k) !caps with Not_found -> [] in
  let bads : int list ref = ref [] in
  let bad (k : n) : bool = List.mem (int_of_n k) !bads in
  let step st a = if legacy then step_legacy capdb bad st a else step_impl capdb bad st a in
  let st = ref init in
  let prefetching : int list ref = ref [] in   (* views whose battery asks with PrefetchAllTags *)
  let stuck = ref false in
  (try
     while true do
       let line = String.trim (input_line ic) in
       if line <> "" then begin
         let tok = List.filter (fun x -> x <> "") (String.split_on_char ' ' line) in
         match tok with
         | "H" :: name ->
             st := init;
             caps := [];
             bads := [];
             prefetching := [];
             stuck := false;
             output_string oc ("H " ^ String.concat " " name ^ "\n")
         | "cap" :: k :: pk -> caps := (int_of_string k, parse_packets pk) :: !caps
         | [ "bad"; k ] -> bads := int_of_string k :: !bads
         | ("envunc" | "envconv") :: _ when !stuck -> ()
         | (("envunc" | "envconv") as op) :: args -> st := step !st (parse_action op args)   (* no observation line *)
         | [ "restart"; u ] when not !stuck ->
             (* Close + manager.New on the same directories; u = uid of an unloadable file planted before the start.
                The environment inputs given before this line apply to the first closure of New (ABoot). *)
             let unc = !st.unc and cw = !st.cwork in
             st := restart_impl capdb !st [ n_of_int (int_of_string u) ];
             st := step !st (AEnvUnc unc);
             st := step !st (AEnvConvWork cw);
             st := step !st ABoot;
             print_state oc !st
         | op :: args ->
             if !stuck then output_string oc "STUCK earlier\n"
             else begin
               (match op with
               | "obs" -> ()
               | _ ->
                   let a = parse_action op args in
                   if not (enabled !st a) then begin
                     stuck := true;
                     output_string oc ("STUCK action not enabled in the model: " ^ line ^ "\n")
                   end
                   else st := step !st a);
               if not !stuck then begin
                 (match (op, args) with "view", [ v; "p" ] -> prefetching := int_of_string v :: !prefetching | _ -> ());
                 (* the harness reads every open view after every action (views opened with "p" ask with PrefetchAllTags) *)
                 List.iter
                   (fun (v, _) ->
                     st := step !st (ARead v);
                     if List.mem (int_of_n v) !prefetching then st := step !st (APrefetch v))
                   !st.views;
                 print_state oc !st
               end
             end
         | [] -> ()
       end
     done
   with End_of_file -> ());
  close_out oc
