(* C10/C13 model driver: replays the action lists the Go harness resolved (case file) on the
   extracted Coq model (theories/Indexes.v) and prints one observation line per action, in the
   format checks/c10.py parses (parse_model_line). After every action every open view is read
   (ARead), exactly as the harness queries every open view after every action.
   argv: cases out [legacy]      legacy = model of View.fetch before /repo 7300a1b *)
open C10_model

let rec pos_of_int (i : int) : positive =
  if i = 1 then XH else if i land 1 = 0 then XO (pos_of_int (i lsr 1)) else XI (pos_of_int (i lsr 1))
let n_of_int (i : int) : n = if i = 0 then N0 else Npos (pos_of_int i)
let rec int_of_pos = function XH -> 1 | XO p -> 2 * int_of_pos p | XI p -> 2 * int_of_pos p + 1
let int_of_n = function N0 -> 0 | Npos p -> int_of_pos p
let rec int_of_nat = function O -> 0 | S k -> 1 + int_of_nat k

let si n = string_of_int (int_of_n n)
let join sep f l = String.concat sep (List.map f l)
let ents es = join "," (fun e -> si e.e_id ^ ":" ^ si e.e_flow ^ ":" ^ si e.e_ver) es
let ph = function AtStart -> "start" | AtDone -> "done"

let print_state oc (st : state) =
  let b = Buffer.create 256 in
  Buffer.add_string b "idx=";
  Buffer.add_string b (join ";" (fun f -> si f.f_uid ^ "[" ^ ents f.f_ents ^ "]") st.indexes);
  Buffer.add_string b " used=";
  Buffer.add_string b (join "," (fun (k, c) -> si k ^ ":" ^ si c) st.used);
  Buffer.add_string b " disk=";
  Buffer.add_string b (join "," si st.disk);
  Buffer.add_string b " views=";
  Buffer.add_string b
    (join "|" (fun (v, s) -> si v ^ ":" ^ join "." (fun f -> si f.f_uid) s ^ "/" ^ ents (all_streams s)) st.views);
  Buffer.add_string b " queue=";
  Buffer.add_string b (join "," si st.queue);
  Buffer.add_string b " jobs=";
  let js =
    (match st.ijob with Some j -> [ "import:" ^ ph j.ij_phase ] | None -> [])
    @ (match st.mjob with Some j -> [ "merge:" ^ ph j.mj_phase ] | None -> [])
    @ (match st.tjob with Some j -> [ "tag:" ^ ph j.tj_phase ] | None -> [])
  in
  Buffer.add_string b (String.concat "," js);
  Buffer.add_string b (" unc=" ^ si st.unc ^ "/" ^ si st.ntags);
  Buffer.add_string b (" next=" ^ si st.next_id);
  Buffer.add_char b '\n';
  Buffer.output_buffer oc b

let kind_of = function
  | "import" -> KImport
  | "merge" -> KMerge
  | "tag" -> KTag
  | k -> failwith ("unknown job kind " ^ k)

(* ---- enumeration of every schedule of a fixed API action list (thorough tier) ----
   input: H name / cap lines / "api <action>" lines / "limit n"; output: "H name" then one line per
   complete schedule: tokens a (next API action) i m t (step of the parked import/merge/tag job). *)
let parse_action op args =
  match (op, args) with
  | "import", ks -> AImport (List.map (fun s -> n_of_int (int_of_string s)) ks)
  | "view", [ v ] -> AView (n_of_int (int_of_string v))
  | "read", [ v ] -> ARead (n_of_int (int_of_string v))
  | "release", [ v ] -> ARelease (n_of_int (int_of_string v))
  | "tagadd", _ -> ATagAdd
  | "tagdel", [ u; h ] -> ATagDel (u = "1", h = "1")
  | "tagupd", [ u; h ] -> ATagUpd (u = "1", h = "1")
  | "start", [ k ] -> AStart (kind_of k)
  | "complete", [ k ] -> AComplete (kind_of k)
  | _ -> failwith ("bad action " ^ op)

let enumerate () =
  let ic = open_in Sys.argv.(2) in
  let oc = open_out Sys.argv.(3) in
  let caps : (int * (n * n) list) list ref = ref [] in
  let capdb (k : n) : (n * n) list = try List.assoc (int_of_n k) !caps with Not_found -> [] in
  let bads : int list ref = ref [] in
  let bad (k : n) : bool = List.mem (int_of_n k) !bads in
  let api = ref [] and limit = ref 1000 and name = ref "" in
  let flush_case () =
    if !name <> "" then begin
      output_string oc ("H " ^ !name ^ "\n");
      let count = ref 0 in
      let rec go st rest path =
        if !count < !limit then begin
          let jobs =
            (match st.ijob with Some j -> [ ("i", if j.ij_phase = AtStart then AStart KImport else AComplete KImport) ] | None -> [])
            @ (match st.mjob with Some j -> [ ("m", if j.mj_phase = AtStart then AStart KMerge else AComplete KMerge) ] | None -> [])
            @ (match st.tjob with Some j -> [ ("t", if j.tj_phase = AtStart then AStart KTag else AComplete KTag) ] | None -> [])
          in
          if rest = [] && jobs = [] then begin
            count := !count + 1;
            output_string oc (String.concat " " (List.rev path) ^ "\n")
          end
          else begin
            (match rest with
            | mk :: tl -> let a = mk st in go (if enabled st a then step_impl capdb bad st a else st) tl ("a" :: path)
            | [] -> ());
            List.iter (fun (tok, a) -> go (step_impl capdb bad st a) rest (tok :: path)) jobs
          end
        end
      in
      go init (List.rev !api) [];
      output_string oc (Printf.sprintf "# %d%s\n" !count (if !count >= !limit then " (limit)" else ""))
    end
  in
  (try
     while true do
       let line = String.trim (input_line ic) in
       let tok = List.filter (fun x -> x <> "") (String.split_on_char ' ' line) in
       match tok with
       | "H" :: nm -> flush_case (); name := String.concat " " nm; caps := []; api := []; bads := []
       | [ "bad"; k ] -> bads := int_of_string k :: !bads
       | "cap" :: k :: pk ->
           let ps = List.map (fun s -> match String.split_on_char ':' s with
             | [ f; b ] -> (n_of_int (int_of_string f), n_of_int (int_of_string b)) | _ -> failwith "bad packet") pk in
           caps := (int_of_string k, ps) :: !caps
       | "api" :: op :: args ->
           (* tagdel1 / tagupd1: the scenario has a single tag; the flags the harness will observe follow from the state *)
           let single st = (match st.unc with N0 -> false | _ -> true) in
           let mk =
             match op with
             | "tagdel1" -> fun st -> ATagDel (single st, single st && st.tjob <> None)
             | "tagupd1" -> fun st -> ATagUpd (single st, single st && st.tjob <> None)
             | _ -> let a = parse_action op args in fun _ -> a
           in
           api := mk :: !api
       | "limit" :: [ n ] -> limit := int_of_string n
       | _ -> ()
     done
   with End_of_file -> ());
  flush_case ();
  close_out oc

let () =
  if Sys.argv.(1) = "enum" then (enumerate (); exit 0);
  let ic = open_in Sys.argv.(1) in
  let oc = open_out Sys.argv.(2) in
  let legacy = Array.length Sys.argv > 3 && Sys.argv.(3) = "legacy" in
  let caps : (int * (n * n) list) list ref = ref [] in
  let capdb (k : n) : (n * n) list = try List.assoc (int_of_n k) !caps with Not_found -> [] in
  let bads : int list ref = ref [] in
  let bad (k : n) : bool = List.mem (int_of_n k) !bads in
  let step st a = if legacy then step_legacy capdb bad st a else step_impl capdb bad st a in
  let st = ref init in
  let stuck = ref false in
  (try
     while true do
       let line = String.trim (input_line ic) in
       if line <> "" then begin
         let tok = List.filter (fun x -> x <> "") (String.split_on_char ' ' line) in
         match tok with
         | "H" :: name ->
             st := init;
             caps := [];
             bads := [];
             stuck := false;
             output_string oc ("H " ^ String.concat " " name ^ "\n")
         | "cap" :: k :: pk ->
             let ps =
               List.map
                 (fun s ->
                   match String.split_on_char ':' s with
                   | [ f; b ] -> (n_of_int (int_of_string f), n_of_int (int_of_string b))
                   | _ -> failwith "bad packet")
                 pk
             in
             caps := (int_of_string k, ps) :: !caps
         | [ "bad"; k ] -> bads := int_of_string k :: !bads
         | op :: args ->
             if !stuck then output_string oc "STUCK earlier\n"
             else begin
               let act =
                 match (op, args) with
                 | "obs", _ -> None
                 | "import", ks -> Some (AImport (List.map (fun s -> n_of_int (int_of_string s)) ks))
                 | "view", [ v ] -> Some (AView (n_of_int (int_of_string v)))
                 | "read", [ v ] -> Some (ARead (n_of_int (int_of_string v)))
                 | "release", [ v ] -> Some (ARelease (n_of_int (int_of_string v)))
                 | "tagadd", _ -> Some ATagAdd
                 | "tagdel", [ u; h ] -> Some (ATagDel (u = "1", h = "1"))
                 | "tagupd", [ u; h ] -> Some (ATagUpd (u = "1", h = "1"))
                 | "start", [ k ] -> Some (AStart (kind_of k))
                 | "complete", [ k ] -> Some (AComplete (kind_of k))
                 | _ -> failwith ("bad action " ^ line)
               in
               (match act with
               | None -> ()
               | Some a ->
                   if not (enabled !st a) then begin
                     stuck := true;
                     output_string oc ("STUCK action not enabled in the model: " ^ line ^ "\n")
                   end
                   else st := step !st a);
               if not !stuck then begin
                 (* the harness reads every open view after every action *)
                 List.iter (fun (v, _) -> st := step !st (ARead v)) !st.views;
                 print_state oc !st
               end
             end
         | [] -> ()
       end
     done
   with End_of_file -> ());
  close_out oc
