(* the dump library is written against C01_model; the C07 extraction contains the same definitions *)
include C07_model
