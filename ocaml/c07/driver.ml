(* C07 model driver: builds the index files of a case with the extracted writer model, merges every
   suffix (M k) and the resulting stack again (MM k) with the extracted merge model and dumps the
   merged readers in the format of the Go harness. *)
open C07_model
open Dumplib

let rec drop n l = if n <= 0 then l else match l with [] -> [] | _ :: r -> drop (n - 1) r
let rec take n l = if n <= 0 then [] else match l with [] -> [] | x :: r -> x :: take (n - 1) r

let () =
  let oc = open_out Sys.argv.(2) in
  read_cases Sys.argv.(1) (fun c ->
      Printf.fprintf oc "CASE %s\n" c.name;
      (try
         let streams = List.rev c.streams in
         let starts = List.rev c.files in
         let total = List.length streams in
         let bounds = List.mapi (fun i st -> (st, if i + 1 < List.length starts then List.nth starts (i + 1) else total)) starts in
         let files =
           List.mapi
             (fun i (a, b) ->
               match write_file (take (b - a) (drop a streams)) with
               | Ok (Some r) ->
                   Printf.fprintf oc "F %d ok\n" i;
                   dump_reader oc r [] [];
                   r
               | _ ->
                   Printf.fprintf oc "F %d error\n" i;
                   failwith "file not written")
             bounds
         in
         let n = List.length files in
         for k = 0 to n - 1 do
           match merge_files gcap (drop k files) with
           | None -> Printf.fprintf oc "M %d err\n" k
           | Some m -> (
               Printf.fprintf oc "M %d 1\nO %d 0\n" k k;
               dump_reader oc m [] [];
               match merge_files gcap (take k files @ [ m ]) with
               | None -> Printf.fprintf oc "MM %d err\n" k
               | Some m2 ->
                   Printf.fprintf oc "MM %d 1\nOO %d 0\n" k k;
                   dump_reader oc m2 [] [])
         done
       with ex -> Printf.fprintf oc "PANIC %s\n" (Printexc.to_string ex));
      Printf.fprintf oc "ENDCASE\n";
      flush oc);
  close_out oc
