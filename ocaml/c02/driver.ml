(* C02 model driver: reads the model inputs dumped by the Go harness (stream tables, sorted
   sections, and per (file, part) what buildSearchObjects compiled), runs the extracted
   search_algo in both variants and prints
     M <pop> <search> <patched variant> <unpatched variant> H=<lookup hypothesis holds> sat=<fi.si,...>
   where a result is  more:fi.si,fi.si,...  *)
open C02_model

let rec pos_of_int (i : int) : positive =
  if i = 1 then XH else if i land 1 = 0 then XO (pos_of_int (i lsr 1)) else XI (pos_of_int (i lsr 1))
let n_of_int (i : int) : n = if i = 0 then N0 else Npos (pos_of_int i)
let z_of_int (i : int) : z = if i = 0 then Z0 else if i > 0 then Zpos (pos_of_int i) else Zneg (pos_of_int (-i))
let rec nat_of_int (i : int) : nat = if i <= 0 then O else S (nat_of_int (i - 1))
let rec int_of_nat = function O -> 0 | S n -> 1 + int_of_nat n

let hex_bytes (s : string) : n list =
  let l = String.length s / 2 in
  List.init l (fun i -> n_of_int (int_of_string ("0x" ^ String.sub s (2 * i) 2)))

let key_of = function
  | "id" -> KId | "ftime" -> KFtime | "ltime" -> KLtime | "cbytes" -> KCbytes | "sbytes" -> KSbytes
  | "cport" -> KCport | "sport" -> KSport | "chost" -> KChost | "shost" -> KShost
  | k -> failwith ("sort key " ^ k)

let toks line = List.filter (fun x -> x <> "") (String.split_on_char ' ' line)

(* ---- inlineTagFilter on the model: `--inl in out`.  Input = the dump of harness/c02/zz_verif_c02q_test.go;
   conditions are strings, a tag condition is T<US>name<US>accept<US>subquery.  Output: one line per block with
   the canonical form (sorted conjuncts of sorted conditions) of the model's result. *)
let split_on (sep : char) (s : string) = String.split_on_char sep s

let inl_mode (inf : string) (outf : string) =
  let ic = open_in inf in
  let oc = open_out outf in
  let lines = ref [] in
  (try while true do lines := input_line ic :: !lines done with End_of_file -> ());
  let lines = Array.of_list (List.rev !lines) in
  let pos = ref 0 in
  let next () = let l = lines.(!pos) in incr pos; split_on '\t' l in
  let parse_cond (s : string) =
    match split_on '\x1f' s with
    | "T" :: name :: acc :: _ ->
        let a = int_of_string acc in
        CTag (name, { acc_m = a land 1 <> 0; acc_f = a land 2 <> 0; acc_um = a land 4 <> 0; acc_uf = a land 8 <> 0 })
    | _ -> CAtom s in
  let parse_conj (s : string) = if s = "" then [] else List.map parse_cond (split_on '\x1d' s) in
  let show_cond = function
    | CAtom s -> s
    | CTag (name, a) ->
        let n = (if a.acc_m then 1 else 0) + (if a.acc_f then 2 else 0) + (if a.acc_um then 4 else 0) + (if a.acc_uf then 8 else 0) in
        Printf.sprintf "T\x1f%s\x1f%d" name n in
  while !pos < Array.length lines do
    match next () with
    | [ "INL"; ci; ji ] ->
        let k = match next () with [ "ntags"; k ] -> int_of_string k | _ -> failwith "ntags" in
        let table = List.init k (fun _ ->
            match next () with
            | [ "tag"; name; unc; nd; ni ] ->
                let rd tag n = List.init (int_of_string n) (fun _ ->
                    match next () with [ t; c ] when t = tag -> parse_conj c | [ t ] when t = tag -> [] | _ -> failwith "def line") in
                let d = rd "d" nd in
                let i = rd "i" ni in
                (name, (unc = "1", d, i))
            | _ -> failwith "tag line") in
        let conj = match next () with [ "in"; c ] -> parse_conj c | [ "in" ] -> [] | _ -> failwith "in line" in
        let nout = match next () with [ "out"; n ] -> int_of_string n | _ -> failwith "out line" in
        pos := !pos + nout;
        let tags name =
          match List.assoc_opt name table with
          | Some (unc, d, _) -> Some { td_matches = (fun _ -> false); td_uncertain = (fun _ -> unc); td_any_uncertain = unc; td_conditions = d }
          | None -> None in
        let invert d =
          match List.find_opt (fun (_, (_, d', _)) -> d' = d) table with
          | Some (_, (_, _, i)) -> i
          | None -> failwith "invert of an unknown definition" in
        let res = inline_conj_with tags invert (fun d -> Some d) conj [ [] ] in
        let canon = match res with
          | None -> "NONE"
          | Some out ->
              String.concat "\x1c"
                (List.sort compare (List.map (fun c -> String.concat "\x1d" (List.sort compare (List.map show_cond c))) out)) in
        output_string oc (Printf.sprintf "I\t%s\t%s\t%s\n" ci ji canon)
    | _ -> ()
  done;
  close_out oc;
  exit 0

let () =
  if Array.length Sys.argv > 3 && Sys.argv.(1) = "--inl" then inl_mode Sys.argv.(2) Sys.argv.(3);
  let ic = open_in Sys.argv.(1) in
  let oc = open_out Sys.argv.(2) in
  let lines = ref [] in
  (try while true do lines := input_line ic :: !lines done with End_of_file -> ());
  let lines = Array.of_list (List.rev !lines) in
  let pos = ref 0 in
  let next () = let l = lines.(!pos) in incr pos; toks l in
  let files : file list ref = ref [] in
  let sections_ok = ref true in
  while !pos < Array.length lines do
    match next () with
    | "P" :: _ :: nf :: _ ->
        let nf = int_of_string nf in
        files := [];
        sections_ok := true;
        for _ = 1 to nf do
          (match next () with
           | [ "file"; n ] ->
               let n = int_of_string n in
               let ss = ref [] in
               for _ = 1 to n do
                 match next () with
                 | [ "s"; id; ft; lt; cb; sb; cp; sp; ch; sh ] ->
                     let i x = int_of_string x in
                     ss := { s_id = n_of_int (i id); s_ftime = z_of_int (i ft); s_ltime = z_of_int (i lt);
                             s_cbytes = n_of_int (i cb); s_sbytes = n_of_int (i sb); s_cport = n_of_int (i cp);
                             s_sport = n_of_int (i sp); s_chost = hex_bytes ch; s_shost = hex_bytes sh } :: !ss
                 | _ -> failwith "stream line"
               done;
               let sec () = match next () with
                 | "sec" :: xs -> List.map (fun x -> nat_of_int (int_of_string x)) xs
                 | _ -> failwith "sec line" in
               let a = sec () in let b = sec () in let c = sec () in
               let f = { f_streams = List.rev !ss; f_by_id = a; f_by_ftime = b; f_by_ltime = c } in
               (* hypothesis sections_ok of the theorems, checked on the real file: every section is a
                  permutation of the stream indexes and ordered by its key *)
               let arr = Array.of_list f.f_streams in
               let check sec (lt : stream -> stream -> bool) =
                 let l = List.map int_of_nat sec in
                 if List.sort compare l <> List.init n (fun i -> i) then sections_ok := false;
                 let rec go = function
                   | x :: (y :: _ as r) -> if lt arr.(y) arr.(x) then sections_ok := false; go r
                   | _ -> () in
                 go l in
               check a (key_lt KId); check b (key_lt KFtime); check c (key_lt KLtime);
               files := !files @ [ f ]
           | _ -> failwith "file line")
        done
    | [ "X"; _; _ ] -> ()
    | [ "Q"; pi; si ] ->
        let keys = match next () with
          | "sort" :: _ :: rest ->
              let rec go = function k :: d :: r -> (key_of k, d = "1") :: go r | _ -> [] in go rest
          | _ -> failwith "sort line" in
        let limit, skip = match next () with
          | [ "limit"; l; s ] -> (int_of_string l, int_of_string s) | _ -> failwith "limit line" in
        let ids = match next () with
          | [ "ids"; "0" ] -> None
          | "ids" :: "1" :: _ :: xs -> Some (List.map (fun x -> n_of_int (int_of_string x)) xs)
          | _ -> failwith "ids line" in
        let np = match next () with [ "parts"; n ] -> int_of_string n | _ -> failwith "parts line" in
        let hyp = ref true in
        let sat = Buffer.create 64 in
        let bad = ref false in
        (* reads nfiles x np part blocks; [on_sat fi i] is called for every stream some possible part accepts *)
        let read_parts (on_sat : int -> int -> unit) =
          List.mapi (fun fi f ->
            let n = List.length f.f_streams in
            let satf = Array.make n false in
            let parts = List.init np (fun _ ->
                match next () with
                | [ "qperr" ] -> bad := true; { qp_possible = false; qp_lookups = []; qp_filter = (fun _ -> false) }
                | [ "qp"; poss; nl ] ->
                    let nl = int_of_string nl in
                    let lookups = List.init nl (fun _ -> match next () with
                        | "l" :: _ :: xs -> List.map int_of_string xs | _ -> failwith "lookup line") in
                    let flt = match next () with
                      | "flt" :: xs -> Array.of_list (List.map (fun x -> x = "1") xs) | _ -> failwith "flt line" in
                    let possible = poss = "1" in
                    if possible then
                      Array.iteri (fun i b -> if b then begin
                          satf.(i) <- true;
                          List.iter (fun l -> if not (List.mem i l) then hyp := false) lookups end) flt;
                    { qp_possible = possible;
                      qp_lookups = List.map (List.map nat_of_int) lookups;
                      qp_filter = (fun si -> let i = int_of_nat si in i < Array.length flt && flt.(i)) }
                | _ -> failwith "qp line") in
            Array.iteri (fun i b -> if b then on_sat fi i) satf;
            (f, parts)) !files in
        let fs = read_parts (fun fi i ->
            if Buffer.length sat > 0 then Buffer.add_char sat ',';
            Buffer.add_string sat (Printf.sprintf "%d.%d" fi i)) in
        (* the sub-query phases: the model's unsorted search must reproduce the result list of the code and
           which result matched which part *)
        let subs_ok = ref true in
        let nsubs = match next () with [ "subs"; k ] -> int_of_string k | _ -> failwith "subs line" in
        for _ = 1 to nsubs do
          let real = match next () with
            | "sub" :: _ :: _ :: xs -> xs | _ -> failwith "sub line" in
          let mps = List.init np (fun _ -> match next () with
              | "mp" :: xs -> List.map int_of_string xs | _ -> failwith "mp line") in
          let sfs = read_parts (fun _ _ -> ()) in
          if not !bad then begin
            let res = sub_search v_fixed sfs in
            let shown = List.map (fun ((fi, si), _) -> Printf.sprintf "%d.%d" (int_of_nat fi) (int_of_nat si)) res in
            if shown <> real then subs_ok := false;
            List.iteri (fun p mp ->
                let mine = List.filter (fun i -> i >= 0)
                    (List.mapi (fun pos e -> if entry_matches_part sfs e (nat_of_int p) then pos else -1) res) in
                if mine <> mp then subs_ok := false) mps
          end
        done;
        if not !bad then begin
          let show v =
            let res, more = search_algo v fs keys (nat_of_int limit) (nat_of_int skip) (idok_of ids) in
            (if more then "1:" else "0:") ^
            String.concat "," (List.map (fun ((fi, si), _) -> Printf.sprintf "%d.%d" (int_of_nat fi) (int_of_nat si)) res) in
          output_string oc (Printf.sprintf "M %s %s %s %s H=%d sat=%s S=%d\n" pi si (show v_fixed) (show v_orig)
                              (if !hyp && !sections_ok then 1 else 0) (Buffer.contents sat) (if !subs_ok then 1 else 0));
          flush oc
        end
    | [ "SEL"; ci; nsq; nops ] ->
        (* subQuerySelection.remove sequences on the model *)
        let nsq = int_of_string nsq and nops = int_of_string nops in
        let nums xs = List.map (fun x -> nat_of_int (int_of_string x)) xs in
        let init = Array.init nsq (fun _ -> match next () with "init" :: xs -> nums xs | _ -> failwith "init line") in
        let m0 : nat -> nat list = fun k -> let i = int_of_nat k in if i < nsq then init.(i) else [] in
        let sel = ref [ m0 ] in
        let buf = Buffer.create 64 in
        Buffer.add_string buf ("L " ^ ci);
        for _ = 1 to nops do
          let sqs = match next () with "op" :: xs -> nums xs | _ -> failwith "op line" in
          let forb = List.map (fun _ -> match next () with "f" :: xs -> nums xs | _ -> failwith "f line") sqs in
          sel := sel_remove sqs forb !sel;
          let combos = Hashtbl.create 16 in
          List.iter (fun m ->
              let cur = ref [ "" ] in
              for i = 0 to nsq - 1 do
                let set = List.sort_uniq compare (List.map int_of_nat (m (nat_of_int i))) in
                cur := List.concat_map (fun pre -> List.map (fun x -> Printf.sprintf "%s.%d" pre x) set) !cur
              done;
              List.iter (fun x -> Hashtbl.replace combos x ()) !cur) !sel;
          let l = List.sort compare (Hashtbl.fold (fun k () acc -> k :: acc) combos []) in
          Buffer.add_string buf (Printf.sprintf " %d:%s" (if sel_empty !sel then 1 else 0) (String.concat "," l))
        done;
        output_string oc (Buffer.contents buf ^ "\n")
    | [ "NUM"; ci; n; k ] ->
        (* one number / time relation filter on the model *)
        let k = int_of_string k in
        let subs = List.init k (fun _ ->
            let vals = match next () with "vals" :: xs -> List.map (fun x -> z_of_int (int_of_string x)) xs | _ -> failwith "vals line" in
            let init = match next () with "init" :: xs -> List.map (fun x -> nat_of_int (int_of_string x)) xs | _ -> failwith "init line" in
            (vals, init)) in
        let inits = Array.of_list (List.map snd subs) in
        let m0 : nat -> nat list = fun q -> let i = int_of_nat q in if i < k then inits.(i) else [] in
        let sqs = List.init k nat_of_int in
        let datas = List.map (fun (vals, _) -> group_values vals) subs in
        let sel', ok = number_filter (z_of_int (int_of_string n)) sqs datas [ m0 ] in
        if not ok then output_string oc (Printf.sprintf "N %s 0:\n" ci)
        else begin
          let combos = Hashtbl.create 16 in
          List.iter (fun m ->
              let cur = ref [ "" ] in
              for i = 0 to k - 1 do
                let set = List.sort_uniq compare (List.map int_of_nat (m (nat_of_int i))) in
                cur := List.concat_map (fun pre -> List.map (fun x -> Printf.sprintf "%s.%d" pre x) set) !cur
              done;
              List.iter (fun x -> Hashtbl.replace combos x ()) !cur) sel';
          let l = List.sort compare (Hashtbl.fold (fun k () acc -> k :: acc) combos []) in
          output_string oc (Printf.sprintf "N %s 1:%s\n" ci (String.concat "," l))
        end
    | ("HOST" | "FLAG" as kind) :: ci :: args ->
        (* one host / flag relation filter to a single sub-query on the model *)
        let others = match next () with "others" :: xs -> xs | _ -> failwith "others line" in
        let init = match next () with "init" :: xs -> List.map (fun x -> nat_of_int (int_of_string x)) xs | _ -> failwith "init line" in
        let m0 : nat -> nat list = fun q -> if int_of_nat q = 0 then init else [] in
        let sel', ok =
          if kind = "HOST" then
            match args with
            | [ inv; zero; myh; mask ] ->
                host_filter (inv = "1") (zero = "1") (hex_bytes myh) (hex_bytes mask) O (List.map hex_bytes others) [ m0 ]
            | _ -> failwith "HOST args"
          else
            match args with
            | [ own; value ] ->
                flag_filter (n_of_int (int_of_string own)) (n_of_int (int_of_string value)) O
                  (List.map (fun x -> n_of_int (int_of_string x)) others) [ m0 ]
            | _ -> failwith "FLAG args" in
        if not ok then output_string oc (Printf.sprintf "N %s 0:\n" ci)
        else begin
          let set = List.sort_uniq compare (List.concat_map (fun m -> List.map int_of_nat (m O)) sel') in
          output_string oc (Printf.sprintf "N %s 1:%s\n" ci (String.concat "," (List.map (fun x -> Printf.sprintf ".%d" x) set)))
        end
    | [] -> ()
    | l -> failwith ("unexpected line: " ^ String.concat " " l)
  done;
  close_out oc
