(* C12 model driver: runs the extracted recover_streams / recover_state (theories/Persist.v) on the
   scan of a crash directory.  Case file, one directory per block:
     D
     I <rank in name order> <readable 0/1> <id:hexpayload,...|->
     S <rank in name order> <parses 0/1> <Saved stamp>
     R                                   -> prints "streams id:hex,... | state <rank|->" *)
module M = C12_model

let rec pos_of_z (s : string) : M.positive =
  (* decimal string -> positive, via repeated halving on an int list is overkill: stamps fit in 63 bits *)
  let i = int_of_string s in
  let rec go i = if i = 1 then M.XH else if i land 1 = 0 then M.XO (go (i lsr 1)) else M.XI (go (i lsr 1)) in
  go i
let n_of_string (s : string) : M.n = if int_of_string s = 0 then M.N0 else M.Npos (pos_of_z s)
let rec int_of_pos = function M.XH -> 1 | M.XO p -> 2 * int_of_pos p | M.XI p -> 2 * int_of_pos p + 1
let int_of_n = function M.N0 -> 0 | M.Npos p -> int_of_pos p

let () =
  let ic = open_in Sys.argv.(1) in
  let oc = open_out Sys.argv.(2) in
  let idx = ref [] and sts = ref [] in
  (try
     while true do
       let line = input_line ic in
       if line <> "" then begin
         let a = Array.of_list (String.split_on_char ' ' line) in
         match a.(0) with
         | "D" -> idx := []; sts := []
         | "I" ->
             let streams =
               if a.(3) = "-" then []
               else List.map (fun kv ->
                   match String.split_on_char ':' kv with
                   | [k; h] -> (n_of_string k, h)
                   | _ -> failwith "bad stream") (String.split_on_char ',' a.(3))
             in
             idx := !idx @ [ { M.i_name = (n_of_string a.(1), M.N0); M.i_magic = (a.(2) = "1"); M.i_streams = streams } ]
         | "S" ->
             sts := !sts @ [ { M.s_name = (n_of_string a.(1), M.N0); M.s_ok = (a.(2) = "1"); M.s_stamp = n_of_string a.(3); M.s_data = int_of_string a.(1) } ]
         | "R" ->
             let ids = List.sort_uniq compare (List.concat_map (fun f -> List.map (fun (k, _) -> int_of_n k) f.M.i_streams) !idx) in
             let vis = List.filter_map (fun id ->
                 match M.recover_streams !idx (n_of_string (string_of_int id)) with
                 | Some h -> Some (Printf.sprintf "%d:%s" id h)
                 | None -> None) ids in
             let st = match M.recover_state !sts with Some f -> string_of_int f.M.s_data | None -> "-" in
             output_string oc (Printf.sprintf "streams %s | state %s\n" (if vis = [] then "-" else String.concat "," vis) st)
         | x -> failwith ("bad line " ^ x)
       end
     done
   with End_of_file -> ());
  close_out oc
