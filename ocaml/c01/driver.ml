(* C01 model driver main: argv = case file, output file *)
open C01_model
open Dumplib

let () =
  let oc = open_out Sys.argv.(2) in
  read_cases Sys.argv.(1) (fun c ->
      Printf.fprintf oc "CASE %s\n" c.name;
      (try
         match write_file (List.rev c.streams) with
         | Error e -> Printf.fprintf oc "R %s\n" e
         | Ok None -> Printf.fprintf oc "R finalize-error\n"
         | Ok (Some r) ->
             Printf.fprintf oc "R ok\n";
             dump_reader oc r (List.rev c.qs) (List.rev c.ids)
       with ex -> Printf.fprintf oc "PANIC %s\n" (Printexc.to_string ex));
      Printf.fprintf oc "ENDCASE\n";
      flush oc);
  close_out oc
