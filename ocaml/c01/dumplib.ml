(* C01 model driver: reads the case file of harness/c01, runs the extracted Coq model
   (add_streams -> finalize -> byte image -> decode -> new_reader -> observers) and prints the
   same observation lines as the Go harness (hosts as hex, protocol as number, no J line). *)
open C01_model

(* ---- numbers: Int64 (unsigned) <-> Coq N ---- *)
let rec pos_of_i64 (i : int64) : positive =
  if Int64.equal i 1L then XH
  else
    let h = Int64.shift_right_logical i 1 in
    if Int64.equal (Int64.logand i 1L) 0L then XO (pos_of_i64 h) else XI (pos_of_i64 h)
let n_of_i64 (i : int64) : n = if Int64.equal i 0L then N0 else Npos (pos_of_i64 i)
let rec i64_of_pos = function
  | XH -> 1L
  | XO p -> Int64.shift_left (i64_of_pos p) 1
  | XI p -> Int64.logor (Int64.shift_left (i64_of_pos p) 1) 1L
let i64_of_n = function N0 -> 0L | Npos p -> i64_of_pos p
let n_of_int (i : int) : n = n_of_i64 (Int64.of_int i)
let int_of_n (x : n) : int = Int64.to_int (i64_of_n x)
let n_of_string (s : string) : n = n_of_i64 (Int64.of_string ("0u" ^ s))
let string_of_n (x : n) : string = Printf.sprintf "%Lu" (i64_of_n x)

let bytes_of_string (s : string) : n list = List.init (String.length s) (fun i -> n_of_int (Char.code s.[i]))
let string_of_bytes (l : n list) : string =
  let b = Buffer.create 16 in
  List.iter (fun x -> Buffer.add_char b (Char.chr (int_of_n x land 255))) l;
  Buffer.contents b
let hex_of_bytes (l : n list) : string = String.concat "" (List.map (fun x -> Printf.sprintf "%02x" (int_of_n x)) l)
let bytes_of_hex (s : string) : n list =
  List.init (String.length s / 2) (fun i -> n_of_int (int_of_string ("0x" ^ String.sub s (2 * i) 2)))

(* small numbers are shared: the payload lists are long *)
let byte_tab = Array.init 256 n_of_int
let pattern (seed : int) (len : int) : n list =
  let rec go i acc = if i < 0 then acc else go (i - 1) (byte_tab.((seed + (31 * i) + (i lsr 8)) land 255) :: acc) in
  go (len - 1) []

let adler32 (l : n list) : int =
  let a = ref 1 and b = ref 0 in
  List.iter
    (fun x ->
      a := (!a + int_of_n x) mod 65521;
      b := (!b + !a) mod 65521)
    l;
  (!b lsl 16) lor !a

let gcap = n_of_int 65535

type case = {
  name : string;
  mutable streams : (n * istream) list; (* reversed *)
  mutable files : int list; (* C07: start positions, reversed *)
  mutable qs : (string * string) list;
  mutable ids : string list;
}

let split_on c s = List.filter (fun x -> x <> "") (String.split_on_char c s)

(* parser shared with the C07 driver: calls [each] for every case *)
let read_cases (path : string) (each : case -> unit) : unit =
  let ic = open_in path in
  let cur = ref { name = ""; streams = []; files = []; qs = []; ids = [] } in
  let hdr = ref None in
  let pk = ref [] and da = ref [] in
  (try
     while true do
       let line = input_line ic in
       match split_on ' ' line with
       | [] -> ()
       | "CASE" :: nm :: _ -> cur := { name = nm; streams = []; files = []; qs = []; ids = [] }
       | [ "S"; id; fl; ca; cp; sa; sp ] ->
           hdr := Some (id, fl, ca, cp, sa, sp);
           pk := [];
           da := []
       | "P" :: sec :: nsec :: dir :: rest ->
           let ts = Int64.add (Int64.mul (Int64.of_string sec) 1000000000L) (Int64.of_string nsec) in
           let srcs =
             match rest with
             | [] -> []
             | s :: _ ->
                 List.map
                   (fun x ->
                     let i = String.rindex x ':' in
                     (bytes_of_string (String.sub x 0 i), n_of_string (String.sub x (i + 1) (String.length x - i - 1))))
                   (split_on ',' s)
           in
           (* AllFromPacketMetadata walks AncillaryData backwards *)
           pk := { p_ts = n_of_i64 ts; p_dir = dir = "1"; p_srcs = List.rev srcs } :: !pk
       | [ "D"; pi; len; seed ] -> da := (n_of_string pi, pattern (int_of_string seed) (int_of_string len)) :: !da
       | [ "E" ] -> (
           match !hdr with
           | Some (id, fl, ca, cp, sa, sp) ->
               let s =
                 { s_caddr = bytes_of_hex ca; s_saddr = bytes_of_hex sa; s_cport = n_of_string cp; s_sport = n_of_string sp;
                   s_flags = n_of_string fl; s_packets = List.rev !pk; s_data = List.rev !da }
               in
               !cur.streams <- (n_of_string id, s) :: !cur.streams
           | None -> ())
       | [ "FILE" ] -> !cur.files <- List.length !cur.streams :: !cur.files
       | [ "Q"; cap; idx ] -> !cur.qs <- (cap, idx) :: !cur.qs
       | [ "I"; id ] -> !cur.ids <- id :: !cur.ids
       | [ "ENDCASE" ] -> each !cur
       | _ -> ()
     done
   with End_of_file -> ());
  close_in ic

let b2d b = if b then "1" else "0"

(* the lines of one reader, as verifDumpReader prints them *)
let dump_reader (oc : out_channel) (r : reader) (qs : (string * string) list) (ids : string list) : unit =
  let all = all_streams r in
  let idmap = r_ids r in
  (* distinct ids of the map *)
  let sorted_ids =
    List.sort_uniq (fun a b -> Int64.unsigned_compare a b) (List.map (fun (a, _) -> i64_of_n a) idmap)
  in
  Printf.fprintf oc "N %d %d %s %s\n" (List.length all) (List.length sorted_ids) (string_of_n (r_min r)) (string_of_n (r_max r));
  (* summary of NewReader: streams at both ends of the by-first-time and by-last-time lookups *)
  (let f = r.r_file in
   let arr = Array.of_list f.f_streams in
   let pick l k = arr.(int_of_n (List.nth l k)) in
   let nl = List.length f.f_by_ftime in
   if nl > 0 && Array.length arr > 0 then begin
     let refns = Int64.mul (i64_of_n f.f_ref) 1000000000L in
     let abs x = Printf.sprintf "%Lu" (Int64.add refns (i64_of_n x)) in
     Printf.fprintf oc "X %s %s %s %s\n" (abs (pick f.f_by_ftime 0).st_first) (abs (pick f.f_by_ftime (nl - 1)).st_first)
       (abs (pick f.f_by_ltime 0).st_last) (abs (pick f.f_by_ltime (nl - 1)).st_last)
   end);
  output_string oc "IDS";
  List.iter (fun i -> Printf.fprintf oc " %Lu" i) sorted_ids;
  output_string oc "\n";
  let indexed = List.mapi (fun i s -> (i, s)) all in
  let indexed = List.stable_sort (fun (_, a) (_, b) -> Int64.unsigned_compare (i64_of_n a.st_id) (i64_of_n b.st_id)) indexed in
  List.iter
    (fun (i, s) ->
      let o = observe r s in
      let id = string_of_n o.ob_id in
      Printf.fprintf oc "T %s %s %s %s %s %s %s %s %s %s\n" id (hex_of_bytes o.ob_chost) (string_of_n o.ob_cport) (hex_of_bytes o.ob_shost)
        (string_of_n o.ob_sport) (string_of_n o.ob_proto) (string_of_n o.ob_first) (string_of_n o.ob_last) (string_of_n o.ob_cbytes)
        (string_of_n o.ob_sbytes);
      (match o.ob_packets with
      | None -> Printf.fprintf oc "K %s err\n" id
      | Some ps ->
          Printf.fprintf oc "K %s" id;
          List.iter
            (fun p -> Printf.fprintf oc " %s:%s:%s:%s" (string_of_bytes p.o_name) (string_of_n p.o_index) (b2d p.o_dir) (string_of_n p.o_ts))
            ps;
          output_string oc "\n");
      (match o.ob_data with
      | None -> Printf.fprintf oc "C %s err\n" id
      | Some cs ->
          Printf.fprintf oc "C %s" id;
          List.iter
            (fun c -> Printf.fprintf oc " %s:%d:%d:%s" (b2d c.c_dir) (List.length c.c_bytes) (adler32 c.c_bytes) (string_of_n c.c_ts))
            cs;
          output_string oc "\n");
      let byid =
        match stream_by_id r o.ob_id with None -> "none" | Some (s2, i2) -> Printf.sprintf "%s/%s" (string_of_n s2.st_id) (string_of_n i2)
      in
      let bysrc =
        match o.ob_packets with
        | Some (p :: _) -> (
            match stream_by_source r p.o_name p.o_index with
            | None -> "none"
            | Some (s3, i3) -> Printf.sprintf "%s/%s" (string_of_n s3.st_id) (string_of_n i3))
        | _ -> "nopackets"
      in
      let inmap = match assoc o.ob_id idmap with Some k -> "true/" ^ string_of_n k | None -> "false/0" in
      Printf.fprintf oc "L %s self=%s/%d ids=%s byid=%s bysrc=%s\n" id id i inmap byid bysrc)
    indexed;
  List.iter
    (fun (cap, idx) ->
      let res = match stream_by_source r (bytes_of_string cap) (n_of_string idx) with None -> "none" | Some (s, _) -> string_of_n s.st_id in
      Printf.fprintf oc "Q %s %s %s\n" cap idx res)
    qs;
  List.iter
    (fun id ->
      let res = match stream_by_id r (n_of_string id) with None -> "none" | Some (s, _) -> string_of_n s.st_id in
      Printf.fprintf oc "I %s %s\n" id res)
    ids

let write_file (ss : (n * istream) list) : (reader option, string) result =
  (* the writer with the explicit pop of the undo path (IndexFormatPop.v; proved equal to add_streams) *)
  match add_streams_pop gcap new_writer ss with
  | None -> Error "addstream-refused"
  | Some w -> ( match finalize_reader w with None -> Error "finalize-error" | Some r -> Ok (Some r))
