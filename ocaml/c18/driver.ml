(* C18 model driver: reads the programs dumped by the Go harness, runs the extracted Coq
   analyses and the path-semantics acceptor, prints one observation line per case.
   argv: in out [costlimit] *)
open C18_model

let rec pos_of_int (i : int) : positive =
  if i = 1 then XH else if i land 1 = 0 then XO (pos_of_int (i lsr 1)) else XI (pos_of_int (i lsr 1))
let n_of_int (i : int) : n = if i = 0 then N0 else Npos (pos_of_int i)
let rec nat_of_int (i : int) : nat = if i = 0 then O else S (nat_of_int (i - 1))
let rec i64_of_pos = function
  | XH -> 1L
  | XO p -> Int64.shift_left (i64_of_pos p) 1
  | XI p -> Int64.logor (Int64.shift_left (i64_of_pos p) 1) 1L
let n_to_string = function N0 -> "0" | Npos p -> Printf.sprintf "%Lu" (i64_of_pos p)
let n_to_int = function N0 -> 0 | Npos p -> Int64.to_int (i64_of_pos p)

let op_of_int = function
  | 0 -> IAlt | 1 -> IAltMatch | 2 -> ICapture | 3 -> IEmpty | 4 -> IMatch | 5 -> IFail | 6 -> INop
  | 7 -> IRune | 8 -> IRune1 | 9 -> IRuneAny | 10 -> IRuneAnyNotNL | _ -> IBad

let nums s = if s = "" then [] else List.map (fun x -> n_of_int (int_of_string x)) (String.split_on_char '.' s)

let parse_inst s =
  match String.split_on_char ',' s with
  | [o; out; arg; rs; orb] ->
      { op = op_of_int (int_of_string o); out = nat_of_int (int_of_string out);
        arg = nat_of_int (int_of_string arg); runes = nums rs; orbit = nums orb }
  | _ -> failwith ("bad inst " ^ s)

let pair = function None -> "none" | Some (a, b) -> n_to_string a ^ "," ^ n_to_string b
let hex l = "x" ^ String.concat "" (List.map (fun b -> Printf.sprintf "%02x" (n_to_int b)) l)
let b2s b = if b then "1" else "0"

(* all strings over alpha of length 0..l, by length then lexicographic in alphabet order *)
let enum alpha l f =
  let rec go n prefix_rev = if n = 0 then f (List.rev prefix_rev) else List.iter (fun a -> go (n - 1) (a :: prefix_rev)) alpha in
  for n = 0 to l do go n [] done

let () =
  let ic = open_in Sys.argv.(1) in
  let oc = open_out Sys.argv.(2) in
  let limit = if Array.length Sys.argv > 3 then float_of_string Sys.argv.(3) else 300000.0 in
  (try
     while true do
       let line = input_line ic in
       match String.split_on_char ' ' line with
       | [id; st; _n; is; cost; alpha; la] ->
           let p = { insts = List.map parse_inst (String.split_on_char ';' is); start = nat_of_int (int_of_string st) } in
           let cheap = float_of_string cost <= limit in
           let w = wf p in
           let lenc = if w then pair (accepted_length_cached p) else "nowf" in
           let lenc0 = if w then pair (accepted_length_cached_v0 p) else "nowf" in
           let lenu = if not w then "nowf" else if cheap then pair (accepted_length p) else "skip" in
           let suf = if not w then "nowf" else (match constant_suffix_b p with None -> "none" | Some s -> hex s) in
           let sufu = if not w then "nowf" else if float_of_string cost <= 3000000.0 && suf = "x" then
               (match constant_suffix p with None -> "none" | Some s -> hex s) else "same" in
           let buf = Buffer.create 1200 in
           let la' = int_of_string la in
           if w then enum (nums alpha) la' (fun s -> Buffer.add_string buf (b2s (accepts_b p s)));
           Printf.fprintf oc "%s wf=%s sat=%s af=%s lenc=%s lenc0=%s lenu=%s suf=%s sufu=%s acc=%s\n" id (b2s w) (b2s (sat p))
             (b2s (assertion_free p)) lenc lenc0 lenu suf sufu (Buffer.contents buf);
           flush oc
       | _ -> ()
     done
   with End_of_file -> ());
  close_out oc
