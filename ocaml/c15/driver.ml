(* C15 model driver: replays the op histories of the case file on the extracted Coq
   model of cachefile.go and prints the same observation lines as the Go harness.
   argv: cases out fixes   (fixes = three characters 0/1: torn tail, tombstone, empty chunk) *)
open C15_model

let rec pos_of_int (i : int) : positive =
  if i = 1 then XH else if i land 1 = 0 then XO (pos_of_int (i lsr 1)) else XI (pos_of_int (i lsr 1))
let n_of_int (i : int) : n = if i = 0 then N0 else Npos (pos_of_int i)
let rec int_of_pos = function XH -> 1 | XO p -> 2 * int_of_pos p | XI p -> 2 * int_of_pos p + 1
let int_of_n = function N0 -> 0 | Npos p -> int_of_pos p

(* decimal string <-> N of any size *)
let n_of_string (s : string) : n =
  if String.length s <= 18 then n_of_int (int_of_string s)
  else begin
    let ten = n_of_int 10 in
    let r = ref N0 in
    String.iter (fun c -> r := N.add (N.mul !r ten) (n_of_int (Char.code c - 48))) s;
    !r
  end
let z_of_string (s : string) : z =
  if s <> "" && s.[0] = '-' then Z.opp (Z.of_N (n_of_string (String.sub s 1 (String.length s - 1))))
  else Z.of_N (n_of_string s)

let rec bits_of_pos = function XH -> [1] | XO p -> 0 :: bits_of_pos p | XI p -> 1 :: bits_of_pos p
let string_of_pos (p : positive) : string =
  let bits = List.rev (bits_of_pos p) in
  if List.length bits <= 61 then string_of_int (int_of_pos p)
  else begin
    (* decimal digits, least significant first *)
    let d = Array.make 40 0 in
    List.iter (fun b ->
        let carry = ref b in
        for i = 0 to 39 do
          let v = d.(i) * 2 + !carry in
          d.(i) <- v mod 10; carry := v / 10
        done) bits;
    let hi = ref 39 in
    while !hi > 0 && d.(!hi) = 0 do decr hi done;
    String.init (!hi + 1) (fun i -> Char.chr (48 + d.(!hi - i)))
  end
let string_of_n = function N0 -> "0" | Npos p -> string_of_pos p
let string_of_z = function Z0 -> "0" | Zpos p -> string_of_pos p | Zneg p -> "-" ^ string_of_pos p

let byte_tab = Array.init 256 n_of_int
let bytes_of_string (s : string) : n list =
  let r = ref [] in
  for i = String.length s - 1 downto 0 do r := byte_tab.(Char.code s.[i]) :: !r done;
  !r

let hex_decode (h : string) : string =
  String.init (String.length h / 2) (fun i -> Char.chr (int_of_string ("0x" ^ String.sub h (2 * i) 2)))
let hex_encode (l : n list) : string =
  String.concat "" (List.map (fun b -> Printf.sprintf "%02x" (int_of_n b)) l)

(* content spec: h<hex> | p<len>.<seed>  (byte i = seed + 131*i + 7*(i>>8)) *)
let content_of (s : string) : n list =
  let body = String.sub s 1 (String.length s - 1) in
  if s.[0] = 'h' then bytes_of_string (hex_decode body)
  else begin
    match String.split_on_char '.' body with
    | [n; seed] ->
        let n = int_of_string n and seed = int_of_string seed in
        let r = ref [] in
        for i = n - 1 downto 0 do r := byte_tab.((seed + 131 * i + 7 * (i lsr 8)) land 255) :: !r done;
        !r
    | _ -> failwith "bad content spec"
  end

let crc_table =
  Array.init 256 (fun i ->
      let c = ref i in
      for _ = 0 to 7 do
        if !c land 1 = 1 then c := 0xEDB88320 lxor (!c lsr 1) else c := !c lsr 1
      done;
      !c)
let crc_step crc b = crc_table.((crc lxor b) land 0xff) lxor (crc lsr 8)
let crc_bytes (l : n list) : int =
  (List.fold_left (fun crc b -> crc_step crc (int_of_n b)) 0xFFFFFFFF l) lxor 0xFFFFFFFF
let crc_string (s : string) : int =
  let crc = ref 0xFFFFFFFF in
  String.iter (fun c -> crc := crc_step !crc (Char.code c)) s;
  !crc lxor 0xFFFFFFFF

let chunk_of (tok : string) : chunk =
  match String.split_on_char ',' tok with
  | [d; c; t; ct] ->
      { c_dir = (d = "1"); c_data = content_of c; c_time = z_of_string t; c_ct = bytes_of_string (hex_decode ct) }
  | _ -> failwith ("bad chunk " ^ tok)

let obs_id (buf : Buffer.t) (st : state) (t0 : (string, z) Hashtbl.t) (ids : string) =
  let id = n_of_string ids in
  Buffer.add_string buf (Printf.sprintf "%s:%s:D" ids (if contains st id then "1" else "0"));
  (match data st id (Hashtbl.find t0 ids) with
   | Absent -> Buffer.add_string buf "-"
   | Failed -> Buffer.add_string buf "E"
   | Ok ((cs, cb), sb) ->
       Buffer.add_string buf (Printf.sprintf "%s,%s" (string_of_n cb) (string_of_n sb));
       List.iter (fun c ->
           Buffer.add_string buf
             (Printf.sprintf ";%d,%d,%08x,%s,%s" (if c.c_dir then 1 else 0) (List.length c.c_data)
                (crc_bytes c.c_data) (string_of_z c.c_time) (hex_encode c.c_ct))) cs);
  Buffer.add_string buf ":S";
  (match data_for_search st id with
   | Absent -> Buffer.add_string buf "-"
   | Failed -> Buffer.add_string buf "E"
   | Ok ((((cd, sd), ps), cb), sb) ->
       Buffer.add_string buf
         (Printf.sprintf "%s,%s,%08x,%08x" (string_of_n cb) (string_of_n sb) (crc_bytes cd) (crc_bytes sd));
       List.iter (fun (a, b) -> Buffer.add_string buf (Printf.sprintf ";%s,%s" (string_of_n a) (string_of_n b))) ps)

let obs (st : state) t0 (ids : string list) : string =
  let buf = Buffer.create 256 in
  Buffer.add_string buf ("C=" ^ string_of_n (stream_count st));
  List.iter (fun id -> Buffer.add_char buf ' '; obs_id buf st t0 id) ids;
  Buffer.contents buf

let drift (st : state) : string =
  Printf.sprintf " # fs=%s free=%s fstart=%s disk=%d" (string_of_n (st_fileSize st)) (string_of_n (st_freeSize st))
    (string_of_n (st_freeStart st)) (List.length (st_file st))

let () =
  let ic = open_in Sys.argv.(1) in
  let oc = open_out Sys.argv.(2) in
  let f = Sys.argv.(3) in
  let fx = { fx_torn = f.[0] = '1'; fx_tomb = f.[1] = '1'; fx_empty = f.[2] = '1' } in
  let st = ref (Some reset_state) in
  let t0 : (string, z) Hashtbl.t = Hashtbl.create 16 in
  let ids = ref [] in
  (try
     while true do
       let line = input_line ic in
       if line <> "" then begin
         let ops, probes =
           match String.index_opt line ';' with
           | None -> (line, [])
           | Some i ->
               ( String.sub line 0 i,
                 List.filter (fun x -> x <> "")
                   (String.split_on_char ' ' (String.sub line (i + 1) (String.length line - i - 1))) )
         in
         let tok = List.filter (fun x -> x <> "") (String.split_on_char ' ' ops) in
         match tok with
         | "H" :: idx :: rest ->
             Hashtbl.reset t0;
             let l = List.map (fun s ->
                 match String.split_on_char ':' s with
                 | [id; t] -> Hashtbl.replace t0 id (z_of_string t); id
                 | _ -> failwith "bad H") rest in
             (* numeric order, as the harness *)
             ids := List.sort (fun a b -> compare (String.length a, a) (String.length b, b)) l;
             st := new_cache_file fx [];
             output_string oc ("H " ^ idx ^ "\n"); flush oc
         | op :: args ->
             let out =
               match !st with
               | None -> "DEAD"
               | Some s ->
                   let finish ret s' = st := Some s'; ret ^ " " ^ obs s' t0 probes ^ drift s' in
                   (match op, args with
                    | "store", id :: chunks ->
                        (match set_data fx s (n_of_string id) (Hashtbl.find t0 id) (List.map chunk_of chunks) with
                         | Some s' -> finish "ok" s'
                         | None -> finish "err" s)
                    | "inval", _ ->
                        let l = match args with
                          | [] -> []
                          | a :: _ -> List.map n_of_string (List.filter (fun x -> x <> "") (String.split_on_char ',' a)) in
                        let s', inv = invalidate fx s l in
                        let inv = List.sort_uniq compare (List.map int_of_n inv) in
                        finish ("inv=" ^ String.concat "," (List.map string_of_int inv)) s'
                    | "reset", _ -> finish "ok" reset_state
                    | "compact", _ ->
                        (match truncate_file s with Some s' -> finish "ok" s' | None -> finish "err" s)
                    | "reopen", _ ->
                        (match reopen fx s with Some s' -> finish "ok" s' | None -> st := None; "err")
                    | "crash", n :: _ ->
                        (match crash fx s (n_of_string n) with Some s' -> finish "ok" s' | None -> st := None; "err")
                    | "sweep", from :: _ ->
                        let size = List.length (st_file s) in
                        let buf = Buffer.create 1024 in
                        Buffer.add_string buf (Printf.sprintf "sweep size=%d" size);
                        (* runs of equal results: first-last:result *)
                        let start = ref 0 and prev = ref "" in
                        let flush_run last =
                          if !prev <> "" then Buffer.add_string buf (Printf.sprintf " %d-%d:%s" !start last !prev) in
                        (* at most 401 truncation points *)
                        for n = max (int_of_string from) (size - 400) to size do
                          let r = match crash fx s (n_of_int n) with
                            | None -> "err"
                            | Some s' -> Printf.sprintf "ok:%08x" (crc_string (obs s' t0 !ids)) in
                          if r <> !prev then begin flush_run (n - 1); start := n; prev := r end
                        done;
                        flush_run size;
                        Buffer.contents buf
                    | _ -> failwith ("unknown op " ^ op))
             in
             output_string oc (out ^ "\n"); flush oc
         | [] -> ()
       end
     done
   with End_of_file -> ());
  close_out oc
