(* C04 model driver: reads cases (programs dumped by the Go harness, conditions, streams), evaluates
   stream_selected (the code's algorithm) and stream_spec (plain scan) of the extracted model.
   argv: in out *)
open C04_model

let rec pos_of_int (i : int) : positive =
  if i = 1 then XH else if i land 1 = 0 then XO (pos_of_int (i lsr 1)) else XI (pos_of_int (i lsr 1))
let n_of_int (i : int) : n = if i = 0 then N0 else Npos (pos_of_int i)
let rec nat_of_int (i : int) : nat = if i = 0 then O else S (nat_of_int (i - 1))
let rec i64_of_pos = function
  | XH -> 1L
  | XO p -> Int64.shift_left (i64_of_pos p) 1
  | XI p -> Int64.logor (Int64.shift_left (i64_of_pos p) 1) 1L
let n_to_string = function N0 -> "0" | Npos p -> Printf.sprintf "%Lu" (i64_of_pos p)
let rec n_to_int_nat = function O -> 0 | S k -> 1 + n_to_int_nat k
let n_to_int = function N0 -> 0 | Npos p -> Int64.to_int (i64_of_pos p)
(* decimal string (may be 2^64-1) -> N *)
let n_of_string (s : string) : n =
  let v = Int64.of_string ("0u" ^ s) in
  let rec go (v : int64) (k : int) : n =
    (* build from bits, most significant first *)
    if k < 0 then N0 else
    let rest = go v (k - 1) in ignore rest; N0 in
  ignore go;
  if v = 0L then N0 else begin
    let bits = ref [] in
    let x = ref v in
    for _ = 0 to 63 do
      bits := (Int64.logand !x 1L = 1L) :: !bits;
      x := Int64.shift_right_logical !x 1
    done;
    (* !bits: most significant first *)
    let rec strip = function false :: r -> strip r | l -> l in
    match strip !bits with
    | [] -> N0
    | _ :: r -> Npos (List.fold_left (fun p b -> if b then XI p else XO p) XH r)
  end

let op_of_int = function
  | 0 -> IAlt | 1 -> IAltMatch | 2 -> ICapture | 3 -> IEmpty | 4 -> IMatch | 5 -> IFail | 6 -> INop
  | 7 -> IRune | 8 -> IRune1 | 9 -> IRuneAny | 10 -> IRuneAnyNotNL | _ -> IBad
let nums s = if s = "" then [] else List.map (fun x -> n_of_int (int_of_string x)) (String.split_on_char '.' s)
let parse_inst s =
  match String.split_on_char ',' s with
  | [o; out; arg; rs; orb] ->
      { op = op_of_int (int_of_string o); out = nat_of_int (int_of_string out);
        arg = nat_of_int (int_of_string arg); runes = nums rs; orbit = nums orb }
  | _ -> failwith ("bad inst " ^ s)
let unhex (s : string) : n list =
  let s = if String.length s > 0 && s.[0] = 'x' then String.sub s 1 (String.length s - 1) else s in
  let l = ref [] in
  let k = String.length s / 2 in
  for i = k - 1 downto 0 do l := n_of_int (int_of_string ("0x" ^ String.sub s (2 * i) 2)) :: !l done;
  !l
let hex l = "x" ^ String.concat "" (List.map (fun b -> Printf.sprintf "%02x" (n_to_int b)) l)

let chunks (s : string) : (bool * n list) list =
  if s = "-" || s = "" then []
  else List.map (fun c -> match String.split_on_char ':' c with
      | [d; x] -> (d = "1", unhex x)
      | _ -> failwith ("bad chunk " ^ c)) (String.split_on_char ',' s)

let facts_memo : (string, (n list * n list * n * n) option * bool) Hashtbl.t = Hashtbl.create 64

type case = { mutable id : string; mutable conv : conv_name; mutable tbl : (int * rx) list; mutable ors : cond list list;
              mutable streams : stream list; mutable cur : (source option * source option list) option; mutable bad : string }

let () =
  let ic = open_in Sys.argv.(1) in
  let oc = open_out Sys.argv.(2) in
  let c = { id = ""; conv = CAny; tbl = []; ors = []; streams = []; cur = None; bad = "" } in
  let flush_stream () =
    (match c.cur with
     | Some (raw, convs) -> c.streams <- { s_raw = (match raw with Some r -> r | None -> []); s_conv = List.rev convs } :: c.streams
     | None -> ());
    c.cur <- None in
  (try
     while true do
       let line = input_line ic in
       let tok = String.split_on_char ' ' line in
       match tok with
       | "CASE" :: id :: _nconv :: cv :: _ ->
           c.id <- id; c.tbl <- []; c.ors <- []; c.streams <- []; c.cur <- None; c.bad <- "";
           c.conv <- (if cv = "-" then CAny else if cv = "none" then CNone
                      else COne (nat_of_int (int_of_string (String.sub cv 1 (String.length cv - 1)))))
       | [ "REGEX"; k; st; _n; is; ncap; pre; compl; mn; mx; suf; names ] ->
           let names = List.map (fun x -> if x = "-" || x = "" then None else Some (nat_of_int (int_of_string x))) (String.split_on_char ',' names) in
           let p = { insts = List.map parse_inst (String.split_on_char ';' is); start = nat_of_int (int_of_string st) } in
           let fx = { f_prefix = unhex pre; f_suffix = unhex suf; f_min = n_of_string mn; f_max = n_of_string mx } in
           (* the facts the implementation uses must be the ones the model computes (programs without assertions) *)
           if wf p && assertion_free p then begin
             (* the analyses of one program are computed once per run (an expression that exhausts the suffix budget costs 2^18 calls) *)
             let mfx, mc =
               match Hashtbl.find_opt facts_memo (st ^ " " ^ is) with
               | Some v -> v
               | None ->
                 let (mp, mc) = prog_prefix p in
                 let v =
                   (if mc then Some (mp, mp, n_of_int (List.length mp), n_of_int (List.length mp))
                    else match accepted_length_cached p, constant_suffix_b p with
                      | Some (a, b), Some s -> Some (mp, s, a, b)
                      | _, _ -> None), mc in
                 Hashtbl.add facts_memo (st ^ " " ^ is) v; v in
             match mfx with
             | Some (a, b, x, y) when a = fx.f_prefix && b = fx.f_suffix && x = fx.f_min && y = fx.f_max && (mc = (compl = "1")) -> ()
             | Some (a, b, x, y) -> c.bad <- Printf.sprintf "FACTS regex %s: impl %s/%s/%s/%s model %s/%s/%s/%s" k pre suf mn mx (hex a) (hex b) (n_to_string x) (n_to_string y)
             | None -> c.bad <- "FACTS regex " ^ k ^ ": model analysis failed"
           end;
           if not (wf p) then c.bad <- "NOTWF regex " ^ k;
           if int_of_string ncap < 2 then c.bad <- "NCAP regex " ^ k;
           c.tbl <- (int_of_string k, { r_prog = p; r_ncap = nat_of_int (int_of_string ncap); r_facts = fx; r_names = names }) :: c.tbl
       | [ "OR" ] -> c.ors <- [] :: c.ors
       | "COND" :: inv :: es ->
           (* F:k:d  |  S:pre:d:uses:table   uses = ids joined by '.', table = entries joined by ';', entry = vals=k, vals = hex joined by '.' ('-' = empty value) *)
           let value h = if h = "-" then [] else unhex h in
           let elems = List.filter_map (fun e -> if e = "" then None else match String.split_on_char ':' e with
               | [ "F"; k; d ] -> Some { e_dir = (d = "1"); e_ref = EFixed (nat_of_int (int_of_string k)) }
               | [ "S"; pre; d; uses; table ] ->
                   let uses = List.map (fun x -> nat_of_int (int_of_string x)) (List.filter (fun x -> x <> "") (String.split_on_char '.' uses)) in
                   let table = List.filter_map (fun ent -> if ent = "" then None else match String.split_on_char '=' ent with
                       | [ vs; k ] -> Some (List.map value (String.split_on_char '.' vs), nat_of_int (int_of_string k))
                       | _ -> failwith "bad table entry") (String.split_on_char ';' table) in
                   Some { e_dir = (d = "1"); e_ref = ESubst (nat_of_int (int_of_string pre), uses, table) }
               | _ -> failwith ("bad elem " ^ e)) es in
           let cd = { c_inv = (inv = "1"); c_elems = elems } in
           (match c.ors with cur :: r -> c.ors <- (cur @ [cd]) :: r | [] -> c.ors <- [[cd]])
       | [ "STREAM" ] -> flush_stream (); c.cur <- Some (None, [])
       | [ "RAW"; s ] -> (match c.cur with Some (_, cv) -> c.cur <- Some (Some (chunks s), cv) | None -> ())
       | [ "CONV"; s ] -> (match c.cur with
           | Some (r, cv) -> c.cur <- Some (r, (if s = "none" then None else Some (chunks s)) :: cv)
           | None -> ())
       | [ "END" ] ->
           flush_stream ();
           let n = List.length c.tbl in
           let tbl = List.init n (fun k -> List.assoc k c.tbl) in
           let ors = List.rev c.ors in
           let streams = List.rev c.streams in
           let maxlen = List.fold_left (fun a st ->
               let srcs = st.s_raw :: List.filter_map (fun x -> x) st.s_conv in
               List.fold_left (fun a src -> max a (List.fold_left (fun n (_, x) -> n + List.length x) 0 src)) a srcs) 0 streams in
           let maxprog = List.fold_left (fun a r -> max a (List.length r.r_prog.insts)) 0 tbl in
           let fuel = nat_of_int ((maxlen + 1) * (maxprog + 1) * 2) in
           let ids f = String.concat "," (List.filter_map (fun x -> x) (List.mapi (fun i st -> if f st then Some (string_of_int i) else None) streams)) in
           if c.bad <> "" then Printf.fprintf oc "%s %s\n" c.id c.bad
           else begin
             let errs = List.concat_map (fun st -> List.map (fun cs -> n_to_int_nat (first_err fuel true tbl c.conv cs st)) ors) streams in
             match List.find_opt (fun e -> e <> 0) errs with
             | Some 1 -> Printf.fprintf oc "%s ERR not defined\n" c.id
             | Some 2 -> Printf.fprintf oc "%s ERR already seen\n" c.id
             | Some _ -> Printf.fprintf oc "%s MISSING\n" c.id
             | None ->
             let a = ids (stream_selected fuel true tbl c.conv ors) in
             let b = ids (stream_spec fuel tbl c.conv ors) in
             if a = b then Printf.fprintf oc "%s OK %s\n" c.id a
             else Printf.fprintf oc "%s MODELSPLIT algorithm=%s spec=%s\n" c.id a b
           end;
           flush oc
       | _ -> ()
     done
   with End_of_file -> ());
  close_out oc
