(* C03/C14 model driver: reads the cases written by the Go harness (neutral parse tree + valuations),
   runs the extracted Coq model and prints per case
     <i> <sem bits> <semL bits> <eval (parse_conditions tree) bits> <impossible 0|1> <fuel_ok> <wf 0|1>
   argv: in out *)
open C03_model

let rec pos_of_int (i : int) : positive =
  if i = 1 then XH else if i land 1 = 0 then XO (pos_of_int (i lsr 1)) else XI (pos_of_int (i lsr 1))
let n_of_int (i : int) : n = if i = 0 then N0 else Npos (pos_of_int i)
let z_of_int (i : int) : z = if i = 0 then Z0 else if i > 0 then Zpos (pos_of_int i) else Zneg (pos_of_int (-i))
let rec int_of_pos = function XH -> 1 | XO p -> 2 * int_of_pos p | XI p -> 2 * int_of_pos p + 1
let int_of_n = function N0 -> 0 | Npos p -> int_of_pos p

let hex_bytes (s : string) : n list =
  let l = String.length s / 2 in
  List.init l (fun i -> n_of_int (int_of_string ("0x" ^ String.sub s (2 * i) 2)))

(* token stream *)
let toks : string array ref = ref [||]
let pos = ref 0
let next () = let t = !toks.(!pos) in incr pos; t
let next_int () = int_of_string (next ())
(* decimal string of any size -> Z (numbers of the query text need not fit an OCaml int) *)
let z_of_string (s : string) : z =
  let neg = String.length s > 0 && s.[0] = '-' in
  let ten = z_of_int 10 in
  let acc = ref Z0 in
  String.iteri (fun i c -> if not (i = 0 && neg) then acc := Z.add (Z.mul !acc ten) (z_of_int (Char.code c - 48))) s;
  if neg then Z.opp !acc else !acc
let next_z () = z_of_string (next ())
let next_n () = n_of_int (next_int ())

let num_ty = function
  | "id" -> 0 | "cbytes" -> 1 | "sbytes" -> 2 | "cport" -> 3 | "sport" -> 4
  | s -> failwith ("number variable " ^ s)

(* data element -> sub-query it belongs to *)
let elem_sub : (int, int) Hashtbl.t = Hashtbl.create 16

let rec fold_bin mk = function
  | [] -> failwith "empty operator"
  | [x] -> x
  | x :: y :: r -> fold_bin mk (mk x y :: r)

let rec parse_expr () : expr =
  match next () with
  | "S" -> ESkip
  | "N" -> ENot (parse_expr ())
  | ("A" | "O" | "T") as op ->
      let n = next_int () in
      let kids = List.init n (fun _ -> ()) |> List.map (fun () -> parse_expr ()) in
      fold_bin (fun a b -> match op with "A" -> EAnd (a, b) | "O" -> EOr (a, b) | _ -> EThen (a, b)) kids
  | "tag" ->
      let sub = next_n () in
      let n = next_int () in
      let names = List.init n (fun _ -> ()) |> List.map (fun () -> next_n ()) in
      EAtom (ATag (sub, names))
  | "proto" ->
      let sub = next_n () in
      let n = next_int () in
      let items = List.init n (fun _ -> ()) |> List.map (fun () ->
        match next () with
        | "v" -> PVar (next_n ())
        | _ -> PTok (next_n ())) in
      EAtom (AProto (sub, items))
  | "host" ->
      let key = next () in
      let sub = next_n () in
      let n = next_int () in
      let items = List.init n (fun _ -> ()) |> List.map (fun () ->
        match next () with
        | "v" ->
            let vs = next_n () in
            let srv = (next () = "shost") in
            let m4 = hex_bytes (next ()) in
            let m6 = hex_bytes (next ()) in
            HVar (vs, srv, m4, m6)
        | _ ->
            let ip = hex_bytes (next ()) in
            let m4 = hex_bytes (next ()) in
            let m6 = hex_bytes (next ()) in
            HIp (ip, m4, m6)) in
      EAtom (AHost ((key <> "shost"), (key <> "chost"), sub, items))
  | "num" ->
      let key = next () in
      let sub = next_n () in
      let tys = (match key with
        | "port" -> [3; 4] | "bytes" -> [1; 2] | k -> [num_ty k]) |> List.map n_of_int in
      let nr = next_int () in
      let ranges = List.init nr (fun _ -> ()) |> List.map (fun () ->
        let nb = next_int () in
        let bounds = List.init nb (fun _ -> ()) |> List.map (fun () ->
          let np = next_int () in
          List.init np (fun _ -> ()) |> List.map (fun () ->
            let neg = (next () = "-") in
            match next () with
            | "v" -> let s = next_n () in let ty = num_ty (next ()) in NPVar (neg, s, n_of_int ty)
            | _ -> NPNum (neg, next_z ()))) in
        match bounds with
        | [b] -> ROne b
        | [lo; hi] -> RTwo (lo, hi)
        | _ -> failwith "range") in
      EAtom (ANum (tys, sub, ranges))
  | "time" ->
      let key = next () in
      let sub = next_n () in
      let k = (match key with "ftime" -> 0 | "ltime" -> 1 | _ -> 2) in
      let nr = next_int () in
      let ranges = List.init nr (fun _ -> ()) |> List.map (fun () ->
        let nb = next_int () in
        let bounds = List.init nb (fun _ -> ()) |> List.map (fun () ->
          let np = next_int () in
          List.init np (fun _ -> ()) |> List.map (fun () ->
            let neg = (next () = "-") in
            match next () with
            | "v" -> let s = next_n () in let lt = (next () = "ltime") in TPVar (neg, s, lt)
            | "a" -> TPAbs (neg, next_z ())
            | _ -> TPDur (neg, next_z ()))) in
        match bounds with
        | [b] -> ROne b
        | [lo; hi] -> RTwo (lo, hi)
        | _ -> failwith "range") in
      EAtom (ATime (n_of_int k, sub, ranges))
  | "data" ->
      let subi = next_int () in
      let n = next_int () in
      let els = List.init n (fun _ -> ()) |> List.map (fun () ->
        let e = next_int () in Hashtbl.replace elem_sub e subi; n_of_int e) in
      EAtom (AData (n_of_int subi, els))
  | t -> failwith ("token " ^ t)

type ostream = { st : stream; events : int array }

let parse_val () : valuation =
  let ns = next_int () in
  let streams = Array.init ns (fun _ -> ()) |> Array.map (fun () ->
    let num = Array.init 5 (fun _ -> ()) |> Array.map (fun () -> next_z ()) in
    let ft = next_z () in
    let lt = next_z () in
    let fl = next_n () in
    let ch = hex_bytes (next ()) in
    let sh = hex_bytes (next ()) in
    let nt = next_int () in
    let tags = Array.init nt (fun _ -> ()) |> Array.map (fun () -> next_n ()) in
    let ne = next_int () in
    let ev = Array.init ne (fun _ -> ()) |> Array.map (fun () -> next_int ()) in
    { st = { s_num = (fun ty -> let i = int_of_n ty in if i < 5 then num.(i) else Z0);
             s_ftime = ft; s_ltime = lt; s_flags = fl; s_chost = ch; s_shost = sh;
             s_tag = (fun t -> let i = int_of_n t in if i < nt then tags.(i) else N0) };
      events = ev }) in
  let get s = let i = int_of_n s in if i < ns then streams.(i) else streams.(0) in
  { v_str = (fun s -> (get s).st);
    v_nxt = (fun el p ->
      let e = int_of_n el in
      let subi = try Hashtbl.find elem_sub e with Not_found -> 0 in
      let ev = (if subi < ns then streams.(subi) else streams.(0)).events in
      let rec go q = if q >= Array.length ev then None else if ev.(q) = e then Some (n_of_int (q + 1)) else go (q + 1) in
      go (int_of_n p));
    v_start = N0 }

let b2c b = if b then '1' else '0'

let () =
  let ic = open_in Sys.argv.(1) in
  let oc = open_out Sys.argv.(2) in
  let cur : (int * expr) option ref = ref None in
  let bs = Buffer.create 64 and bl = Buffer.create 64 and bn = Buffer.create 64 in
  let norm = ref [] in
  (try
     while true do
       let line = input_line ic in
       toks := Array.of_list (List.filter (fun x -> x <> "") (String.split_on_char ' ' line));
       pos := 0;
       if Array.length !toks > 0 then
         match next () with
         | "C" ->
             let i = next_int () in
             Hashtbl.reset elem_sub;
             let e = parse_expr () in
             cur := Some (i, e);
             norm := parse_conditions e;
             Buffer.clear bs; Buffer.clear bl; Buffer.clear bn
         | "V" ->
             (match !cur with
              | Some (_, e) ->
                  let v = parse_val () in
                  Buffer.add_char bs (b2c (sem v e));
                  Buffer.add_char bl (b2c (semL v e));
                  Buffer.add_char bn (b2c (eval_set v !norm))
              | None -> ())
         | "E" ->
             (match !cur with
              | Some (i, e) ->
                  let wf = (match strip e with None -> true | Some e' -> wf_seq true e') in
                  Printf.fprintf oc "%d %s %s %s %c fuel_ok %c\n" i (Buffer.contents bs) (Buffer.contents bl)
                    (Buffer.contents bn) (b2c (!norm = [])) (b2c wf)
              | None -> ());
             cur := None
         | _ -> ()
     done
   with End_of_file -> ());
  close_out oc
