(* C19 model driver: one answer line per case line (argv: in out).
   P <s> <d1> <d2>      -> P <base s> <clean s> <join [d1;d2;s]>
   M U|D <path>         -> M 1 <segment> | M 0          (route_match with the generated prefix/regexp)
   A U|D <f> <bd> <pd>  -> A <re_match> <guard_ok> <target>
   O <pre> <f1> <f2>    -> O <set of reachable final outcomes of two uploads>
   byte strings are hex, "-" is the empty string. *)
open C19_model

let rec pos_of_int (i : int) : positive =
  if i = 1 then XH else if i land 1 = 0 then XO (pos_of_int (i lsr 1)) else XI (pos_of_int (i lsr 1))
let n_of_int (i : int) : n = if i = 0 then N0 else Npos (pos_of_int i)
let rec int_of_pos = function XH -> 1 | XO p -> 2 * int_of_pos p | XI p -> 2 * int_of_pos p + 1
let int_of_n = function N0 -> 0 | Npos p -> int_of_pos p
let rec nat_of_int i = if i = 0 then O else S (nat_of_int (i - 1))

let unhex (s : string) : n list =
  if s = "-" then []
  else List.init (String.length s / 2) (fun i -> n_of_int (int_of_string ("0x" ^ String.sub s (2 * i) 2)))
let hex (l : n list) : string =
  if l = [] then "-" else String.concat "" (List.map (fun b -> Printf.sprintf "%02x" (int_of_n b)) l)
let b2s b = if b then "1" else "0"

let () =
  let ic = open_in Sys.argv.(1) in
  let oc = open_out Sys.argv.(2) in
  (try
     while true do
       let line = input_line ic in
       let a = Array.of_list (List.filter (fun x -> x <> "") (String.split_on_char ' ' line)) in
       if Array.length a > 0 then begin
         (match a.(0) with
          | "P" ->
              let s = unhex a.(1) in
              Printf.fprintf oc "P %s %s %s\n" (hex (base s)) (hex (clean s)) (hex (join [unhex a.(2); unhex a.(3); s]))
          | "M" ->
              let pre, r = if a.(1) = "U" then (gen_upload_prefix, gen_upload_re) else (gen_download_prefix, gen_download_re) in
              (match route_match pre r (unhex a.(2)) with
               | Some seg -> Printf.fprintf oc "M 1 %s\n" (hex seg)
               | None -> Printf.fprintf oc "M 0\n")
          | "A" ->
              let g, r, j =
                if a.(1) = "U" then (gen_upload.uh_guard, gen_upload_re, gen_upload.uh_join)
                else (gen_download_guard, gen_download_re, gen_download_join) in
              let f = unhex a.(2) in
              Printf.fprintf oc "A %s %s %s\n" (b2s (re_match r f)) (b2s (guard_ok g f)) (hex (target j (unhex a.(3)) (unhex a.(4)) f))
          | "O" ->
              let body1 = [n_of_int 1; n_of_int 2] and body2 = [n_of_int 3; n_of_int 4] in
              let pl f = { copy_fail = (if f then Some (nat_of_int 1) else None); close_fail = false; remove_fail = false } in
              let su = { s_excl = exclusive_create gen_upload.uh_flags; s_body1 = body1; s_body2 = body2;
                         s_plan1 = pl (a.(2) = "1"); s_plan2 = pl (a.(3) = "1") } in
              let pre = if a.(1) = "1" then Some [n_of_int 9] else None in
              let outs = outcomes su pre (nat_of_int 12) in
              let strs = List.filter_map (function
                  | None -> None
                  | Some ((((s1, s2), f), q), bad) ->
                      Some (Printf.sprintf "%s%s/%d/%s/%s" (b2s s1) (b2s s2) (int_of_n f)
                              (String.concat "" (List.map (fun t -> if t then "1" else "2") q)) (b2s bad))) outs in
              let uniq = List.sort_uniq compare strs in
              Printf.fprintf oc "O %s\n" (String.concat " " uniq)
          | _ -> Printf.fprintf oc "? %s\n" line);
         flush oc
       end
     done
   with End_of_file -> ());
  close_out oc
